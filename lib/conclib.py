"""Interleaved histories for Model/Conc.v: generators (requests suspended in a parked modulator call or waiting for a
channel lock while other requests, disconnects and re-logins go on), translation of a history and of what the real server
did into the terms of Conf/ConcConf.v (`conc_case`: does some schedule of the model explain the observation?)."""
import serverlib as sl
import srvmon

PRELUDE = "From Coq Require Import List NArith Bool.\nFrom NW Require Import Model.Conc Conf.CodecConf Conf.ConcConf Gen.ConcFlags.\nImport ListNotations.\nOpen Scope N_scope.\n"

USERS = ["alice", "bob", "carol", "dave"]
CHANS = ["!c1@localhost", "!c2@localhost", "!c3@localhost"]
UNUM = {u: i + 1 for i, u in enumerate(USERS)}
CNUM = {c: i + 1 for i, c in enumerate(CHANS)}
REASONS = {"FORBIDDEN": 1, "USER_NOT_REGISTERED": 2, "NOT_ALLOWED": 3, "USER_IN_CHANNEL": 4, "CHANNEL_IS_FULL": 5, "POLICY_VIOLATION": 6,
           "RESOURCE_CONFLICT": 7, "CHANNEL_NOT_FOUND": 8, "USER_NOT_IN_CHANNEL": 9, "INTERNAL_SERVER_ERROR": 10, "USERNAME_IN_USE": 11}
CLOSING = {6, 10}
RECOVERABLE = {"CHANNEL_NOT_FOUND", "CHANNEL_IS_FULL", "FORBIDDEN", "SERVER_OVERLOADED", "NOT_ALLOWED", "NOT_IMPLEMENTED", "USER_IN_CHANNEL",
               "USER_NOT_IN_CHANNEL", "USERNAME_IN_USE", "USER_NOT_REGISTERED", "RESOURCE_CONFLICT", "RESPONSE_TOO_LARGE"}
PAYLOADS = [b"p-one", b"p-two", b"p-three", b"p-four", b"p-five", b"p-six", b"p-seven", b"p-eight"]


def b(x):
    return "true" if x else "false"


def opt(x):
    return "None" if x is None else "(Some %d)" % x


class CGen:
    """history builder; every op carries its model-level reading under "conc" """

    def __init__(self, r, cfg):
        self.r, self.cfg, self.ops = r, cfg, []
        self.next_k, self.next_id, self.next_park = 1, 1, 1
        self.live = {}       # k -> user (client end open, identified)
        self.conns = {}      # shape expected by srvmon.audit_ops

    def rid(self):
        self.next_id += 1
        return self.next_id

    def park(self):
        self.next_park += 1
        return self.next_park - 1

    # --- requests: (wire bytes, Coq event) ---
    def join(self, k, ch, ob=None):
        i = self.rid()
        return (sl.frame("JOIN", [("id", i), ("channel", ch)] + ([("on_behalf", ob + "@localhost")] if ob else [])),
                "EReq %d (RJoin %d %s %d)" % (k, CNUM[ch], opt(UNUM[ob] if ob else None), i),
                {"kind": "JOIN", "k": k, "ch": ch, "who": ob or self.live.get(k), "id": i})

    def leave(self, k, ch, ob=None):
        i = self.rid()
        return (sl.frame("LEAVE", [("id", i), ("channel", ch)] + ([("on_behalf", ob + "@localhost")] if ob else [])),
                "EReq %d (RLeave %d %s %d)" % (k, CNUM[ch], opt(UNUM[ob] if ob else None), i),
                {"kind": "LEAVE", "k": k, "ch": ch, "who": ob or self.live.get(k), "id": i, "probe": ob == "dave"})

    def bcast(self, k, ch, p=None):
        i = self.rid()
        p = p if p is not None else self.r.randrange(len(PAYLOADS))
        return (sl.frame("BROADCAST", [("id", i), ("channel", ch), ("length", len(PAYLOADS[p]))], PAYLOADS[p]),
                "EReq %d (RBcast %d %d %d)" % (k, CNUM[ch], p + 1, i), {"kind": "BROADCAST", "k": k, "ch": ch, "id": i, "payload": p})

    def members(self, k, ch):
        i = self.rid()
        return (sl.frame("MEMBERS", [("id", i), ("channel", ch), ("page_size", 100)]), "EReq %d (RMembers %d %d)" % (k, CNUM[ch], i), {"kind": "MEMBERS", "k": k, "ch": ch, "id": i})

    def setacl(self, k, ch, ty, adding, users):
        i = self.rid()
        tn = {"join": 1, "publish": 2, "read": 3}[ty]
        return (sl.frame("SET_CHAN_ACL", [("id", i), ("channel", ch), ("type", ty), ("action", "add" if adding else "remove"),
                                          ("nids", [u + "@localhost" for u in users])]),
                "EReq %d (RSetAcl %d %d %s [%s] %d)" % (k, CNUM[ch], tn, b(adding), "; ".join(str(UNUM[u]) for u in users), i),
                {"kind": "SET_CHAN_ACL", "k": k, "ch": ch, "id": i, "type": ty, "adding": adding, "users": list(users)})

    def getacl(self, k, ch, ty):
        i = self.rid()
        tn = {"join": 1, "publish": 2, "read": 3}[ty]
        return (sl.frame("GET_CHAN_ACL", [("id", i), ("channel", ch), ("type", ty)]),
                "EReq %d (RGetAcl %d %d %d)" % (k, CNUM[ch], tn, i), {"kind": "GET_CHAN_ACL", "k": k, "ch": ch, "id": i, "type": ty})

    def channels(self, k):
        i = self.rid()
        return (sl.frame("CHANNELS", [("id", i), ("page_size", 50)]), "EReq %d (RChannels %d)" % (k, i), {"kind": "CHANNELS", "k": k, "id": i})

    # --- ops ---
    def open(self, user):
        k = self.next_k
        self.next_k += 1
        self.ops.append({"t": "open", "k": k, "conc": []})
        self.ops.append({"t": "send", "k": k, "bytes": sl.frame("CONNECT", [("version", 1), ("heartbeat_interval", 0)]).hex(), "script": [],
                         "conc": [("frames", k, [])]})
        self.ops.append({"t": "send", "k": k, "bytes": sl.frame("IDENTIFY", [("username", user)]).hex(), "script": [],
                         "conc": [("frames", k, ["EIdentify %d %d true" % (k, UNUM[user])])], "ident": [k, user]})
        self.live[k] = user
        self.conns[k] = {"phase": 2, "user": user}
        return k

    def open_expect_refused(self, user, keep=False):
        """a connection that tries to IDENTIFY with a name that is taken: it must be told USERNAME_IN_USE (the model decides);
        it sends nothing afterwards and hangs up (at once, or when the caller says so: keep=True)"""
        k = self.next_k
        self.next_k += 1
        self.ops.append({"t": "open", "k": k, "conc": []})
        self.ops.append({"t": "send", "k": k, "bytes": sl.frame("CONNECT", [("version", 1), ("heartbeat_interval", 0)]).hex(), "script": [],
                         "conc": [("frames", k, [])]})
        self.ops.append({"t": "send", "k": k, "bytes": sl.frame("IDENTIFY", [("username", user)]).hex(), "script": [],
                         "conc": [("frames", k, ["EIdentify %d %d true" % (k, UNUM[user])])], "ident": [k, user], "expect_refused": True})
        if not keep:
            self.ops.append({"t": "hangup", "k": k, "script": [], "conc": [("hangup", k)]})
        return k

    def hangup_plain(self, k):
        self.ops.append({"t": "hangup", "k": k, "script": [], "conc": [("hangup", k)]})

    def expire(self, ms):
        """virtual time passes: every request sent at least request_timeout ago and still unanswered is dropped by the server"""
        self.ops.append({"t": "advance", "ms": ms, "conc": [], "expire": True})

    def send(self, k, reqs, script=()):
        data = b"".join(x[0] for x in reqs)
        self.ops.append({"t": "send", "k": k, "bytes": data.hex(), "script": list(script), "conc": [("frames", k, [x[1] for x in reqs])],
                         "reqs": [x[2] for x in reqs]})

    def hangup(self, k, script=()):
        self.ops.append({"t": "hangup", "k": k, "script": list(script), "conc": [("hangup", k)]})
        self.live.pop(k, None)
        self.conns.pop(k, None)

    def release(self, n, outcome="ok"):
        self.ops.append({"t": "release", "id": n, "outcome": outcome, "conc": [("release", n, outcome == "ok")]})

    def batch(self, acts, script=()):
        """acts: ("send", k, reqs) | ("release", n, outcome) | ("hangup", k)"""
        ja, ca, rq = [], [], []
        for a in acts:
            if a[0] == "send":
                rq += [x[2] for x in a[2]]
                ja.append({"a": "send", "k": a[1], "bytes": b"".join(x[0] for x in a[2]).hex()})
                ca.append(("frames", a[1], [x[1] for x in a[2]]))
            elif a[0] == "release":
                ja.append({"a": "release", "id": a[1], "outcome": a[2]})
                ca.append(("release", a[1], a[2] == "ok"))
            else:
                ja.append({"a": "hangup", "k": a[1]})
                ca.append(("hangup", a[1]))
                self.live.pop(a[1], None)
                self.conns.pop(a[1], None)
        self.ops.append({"t": "batch", "acts": ja, "script": list(script), "conc": ca, "reqs": rq,
                         "hangups": [a[1] for a in acts if a[0] == "hangup"]})

    def direct(self, users, p=None):
        """the modulator pushes a private payload to these users (M2S_MOD_DIRECT accepted): every live connection of each"""
        p = p if p is not None else self.r.randrange(len(PAYLOADS))
        self.ops.append({"t": "m2s_direct", "targets": [u.encode().hex() for u in users], "payload": PAYLOADS[p].hex(), "script": [],
                         "conc": [("direct", [UNUM[u] for u in users], p + 1)], "direct": {"users": list(users), "payload": p}})

    def bystander(self, k):
        """a request that needs no channel lock and no modulator (CHANNELS) while other requests are suspended: it is answered
        in this very step, whatever the others wait for"""
        self.send(k, [self.channels(k)])
        self.ops[-1]["expect_now"] = True

    def settle(self):
        self.ops.append({"t": "advance", "ms": 50, "conc": []})

    def audit(self):
        """every live connection lists its channels and the members of every channel (one request per op)"""
        for k in sorted(self.live):
            self.send(k, [self.channels(k)])
            self.ops[-1]["audit"] = "channels"
            for ch in CHANS:
                self.send(k, [self.members(k, ch)])
                self.ops[-1]["audit"] = "members"
                self.ops[-1]["channel"] = ch
        # the allow-lists as the owners see them (everybody asks; only an owner is told)
        for ch in CHANS:
            for ty in ("read", "publish"):
                for k in sorted(self.live):
                    self.send(k, [self.getacl(k, ch, ty)])
                    self.ops[-1]["audit_acl"] = [ch, ty]

    def probes(self):
        """after the audit: who administers each channel (a removal on behalf of `dave`, who never connects: FORBIDDEN for
        everybody but the owner), a broadcast per channel by every live connection, then one user goes away"""
        for ch in CHANS:
            for k in sorted(self.live):
                self.send(k, [self.leave(k, ch, ob="dave")])
                self.ops[-1]["probe"] = "owner"
        for ch in CHANS:
            for k in sorted(self.live):
                self.send(k, [self.bcast(k, ch)])
                self.ops[-1]["probe"] = "publish"
        # a full window: as many pipelined requests in ONE write as the connection may have in flight; every one is answered
        # (the in-flight counter is back at zero whatever was interleaved before)
        for k in sorted(self.live):
            self.send(k, [self.channels(k) for _ in range(self.cfg.get("max_inflight", 10))])
            self.ops[-1]["probe"] = "window"
        if self.live:
            k = max(self.live) if self.r.random() < 0.7 else self.r.choice(sorted(self.live))
            u = self.live[k]
            self.hangup(k)
            self.ops[-1]["probe"] = "departure"
            self.settle()
            for k2 in sorted(self.live):
                for ch in CHANS:
                    self.send(k2, [self.members(k2, ch)])
                    self.ops[-1]["probe"] = "after_departure"
                    self.ops[-1]["departed"] = u

    def case(self, family):
        return {"cfg": self.cfg, "ops": self.ops, "nomodel": True, "conc": family}


def cfg_for(r, ops=("fwd-event",), max_subs=10, max_clients=10):
    cfg = sl.base_cfg(r, {"ops": list(ops), "proto": "P/1"})
    cfg.update({"max_clients": max_clients, "max_subs": max_subs, "max_conns": 16, "max_channels": 100, "max_inflight": 10, "max_payload": 1024})
    return cfg


# ---------- translation to Conf/ConcConf.v ----------
def script_term(sc):
    out = []
    for x in sc:
        if isinstance(x, dict) and "park" in x:
            out.append("SPark %d" % x["park"])
        elif x == "err":
            out.append("SErr")
        else:
            out.append("SOk")
    return "[" + "; ".join(out) + "]"


def nid_user(bs):
    s = bs.decode("latin1") if isinstance(bs, (bytes, bytearray)) else str(bs)
    return UNUM.get(s.split("@")[0], 99)


def frame_out(k, f):
    """one received frame -> Coq cout term (None: outside the model's vocabulary and harmless)"""
    if "undecodable" in f:
        return "OErr %d 999 999" % k
    n = sl.frame_name(f)
    g = lambda p: srvmon.fget(f, p)
    if n in ("CONNECT_ACK", "PING", "PONG"):
        return None
    if n == "IDENTIFY_ACK":
        return "OAck %d 0 4" % k
    if n == "JOIN_ACK":
        return "OAck %d %d 1" % (k, g("id"))
    if n == "LEAVE_ACK":
        return "OAck %d %d 2" % (k, g("id"))
    if n == "BROADCAST_ACK":
        return "OAck %d %d 3" % (k, g("id"))
    if n == "SET_CHAN_ACL_ACK":
        return "OAck %d %d 5" % (k, g("id"))
    if n == "CHAN_ACL":
        return "OAcl %d %d [%s]" % (k, g("id"), "; ".join(str(nid_user(x)) for x in (g("nids") or [])))
    if n == "ERROR":
        reason = REASONS.get(g("reason").decode("latin1"), 998)
        if reason in CLOSING:
            return "OClose %d %d" % (k, reason)
        return "OErr %d %d %d" % (k, g("id") or 0, reason)
    if n == "EVENT":
        kind = {"MEMBER_JOINED": 1, "MEMBER_LEFT": 2}.get(g("kind").decode("latin1"), 9)
        return "OEvent %d %d %d %d %s" % (k, kind, CNUM.get(g("channel").decode("latin1"), 99), nid_user(g("nid")), b(g("owner")))
    if n == "MESSAGE":
        pl = bytes.fromhex(f["payload"]) if f.get("payload") else b""
        return "OMsg %d %d %d %d" % (k, CNUM.get(g("channel").decode("latin1"), 99), nid_user(g("from")), (PAYLOADS.index(pl) + 1) if pl in PAYLOADS else 99)
    if n == "MOD_DIRECT":
        pl = bytes.fromhex(f["payload"]) if f.get("payload") else b""
        return "ODirect %d %d" % (k, (PAYLOADS.index(pl) + 1) if pl in PAYLOADS else 99)
    if n == "MEMBERS_ACK":
        return "OMembers %d %d [%s]" % (k, g("id"), "; ".join(str(nid_user(x)) for x in (g("members") or [])))
    if n == "CHANNELS_ACK":
        return "OChannels %d %d [%s]" % (k, g("id"), "; ".join(str(CNUM.get(x.decode("latin1"), 99)) for x in (g("channels") or [])))
    return "OErr %d 997 997" % k


def mod_out(m):
    """one logged modulator call -> Coq cout term"""
    if m.get("call") == "event":
        kind = {"MEMBER_JOINED": 1, "MEMBER_LEFT": 2}.get(bytes.fromhex(m["kind"]).decode("latin1"), 9)
        ch = CNUM.get(bytes.fromhex(m["channel"]).decode("latin1"), 99) if m.get("channel") else 99
        return "OModEvent %d %d %d %s" % (kind, ch, nid_user(bytes.fromhex(m["nid"])) if m.get("nid") else 99, b(m.get("owner")))
    if m.get("call") == "fbp":
        pl = bytes.fromhex(m["payload"])
        return "OModPayload %d %d %d" % (nid_user(bytes.fromhex(m["from"])), CNUM.get("!" + bytes.fromhex(m["channel"]).decode("latin1").lstrip("!") + "@localhost", 99),
                                         (PAYLOADS.index(pl) + 1) if pl in PAYLOADS else 99)
    return "OModEvent 9 9 9 false"


def act_term(a):
    if a[0] == "frames":
        return "AFrames %d [%s]" % (a[1], "; ".join(a[2]))
    if a[0] == "hangup":
        return "AHangup %d" % a[1]
    if a[0] == "expire":
        return "AExpire %d %d" % (a[1], a[2])
    if a[0] == "direct":
        return "ADirect [%s] %d" % ("; ".join(map(str, a[1])), a[2])
    return "ARelease %d %s" % (a[1], b(a[2]))


def cfg_term(cfg):
    mod = cfg.get("mod") or {}
    ops = mod.get("ops", []) if mod else []
    return "{| fwd_event := %s; fwd_payload := %s; ptr_check := src_ptr_check; idx_early := src_idx_early; c_max_subs := %d; c_max_clients := %d |}" % (
        b("fwd-event" in ops), b(bool(mod)), cfg["max_subs"], cfg["max_clients"])


def case_term(case, ob, explained=False):
    """Coq boolean: some schedule of the model explains the observation of this history"""
    if "ops" not in ob:
        return "0"
    xops = []
    gone = []
    sent_at, answered = {}, set()       # (conn, id) -> virtual ms at which the request was written; answered requests
    timeout = case["cfg"].get("request_timeout_ms", 3600000)
    for op, o in zip(case["ops"], ob["ops"]):
        acts = list(op.get("conc", []))
        for rq in op.get("reqs", []):
            sent_at[(rq["k"], rq["id"])] = o.get("t_start", 0)
        if op.get("expire"):
            # the requests whose time-out falls into this stretch of virtual time, in the order of their deadlines
            due = sorted((ts, kid) for kid, ts in sent_at.items() if kid not in answered and ts + timeout <= o.get("t_end", 0))
            acts += [("expire", kid[0], kid[1]) for ts, kid in due]
            for ts, kid in due:
                answered.add(kid)
        for k, v in o["conns"].items():
            for f in v["frames"]:
                if "undecodable" not in f and any(fd["pname"] == "id" for fd in sl.cg.schema()[f["kind"]][2]):
                    i = srvmon.fget(f, "id")
                    if i is not None:
                        answered.add((int(k), i))
        for a in acts:
            if a[0] == "hangup" and a[1] not in gone:
                gone.append(a[1])
        obs, hints = [], []
        for k, v in sorted(o["conns"].items(), key=lambda kv: int(kv[0])):
            outs = [frame_out(int(k), f) for f in v["frames"]]
            outs = [x for x in outs if x is not None]
            if outs:
                obs.append("(%d, [%s])" % (int(k), "; ".join(outs)))
        mods = [mod_out(m) for m in o.get("mod", [])]
        for m in o.get("mod", []):
            if m.get("call") == "event":
                if m.get("nid"):
                    hints.append(nid_user(bytes.fromhex(m["nid"])))
                if m.get("channel"):
                    hints.append(CNUM.get(bytes.fromhex(m["channel"]).decode("latin1"), 99))
        # the clean-up walks a HashSet: a round that starts by waiting for a lock leaves no trace in this op, so every
        # channel is a candidate for "next round", besides the names the observation mentions
        hints = sorted(set(h for h in hints if h != 0) | set(CNUM.values()))
        xops.append("{| x_acts := [%s]; x_script := %s; x_hints := [%s]; x_gone := [%s]; x_obs := [%s]; x_mod := [%s] |}" % (
            "; ".join(act_term(a) for a in acts), script_term(op.get("script") or []), "; ".join(map(str, hints)),
            "; ".join(map(str, gone)), "; ".join(obs), "; ".join(mods)))
    return "%s (%s) [%s]" % ("conc_explained" if explained else "conc_case", cfg_term(case["cfg"]), ";\n ".join(xops))


# ---------- generators ----------
def orphan_family(r, thorough):
    """a JOIN waits for a channel's lock while the channel is released and re-created under the same name (fix 8cc81f1)"""
    cases = []
    vs = [(cause, order) for cause in ("creator_rollback", "last_leaves", "last_hangs_up") for order in ("send_first", "release_first")]
    for cause, order in (vs if thorough else r.sample(vs, 4)):
        g = CGen(r, cfg_for(r))
        a, bb, c = g.open("alice"), g.open("bob"), g.open("carol")
        ch = r.choice(CHANS)
        n = g.park()
        if cause == "creator_rollback":
            g.send(a, [g.join(a, ch)], [{"park": n}])
            rel = ("release", n, "err")
        else:
            g.send(a, [g.join(a, ch)])
            if cause == "last_leaves":
                g.send(a, [g.leave(a, ch)], [{"park": n}])
            else:
                g.hangup(a, [{"park": n}])
            rel = ("release", n, r.choice(["ok", "err"]))
        g.send(bb, [g.join(bb, ch)])
        j3 = ("send", c, [g.join(c, ch)])
        g.batch([j3, rel] if order == "send_first" else [rel, j3])
        g.settle()
        if r.random() < 0.5 and c in g.live:
            g.send(c, [g.bcast(c, ch)])
        g.audit()
        g.probes()
        cases.append(g.case("orphan"))
    return cases


def parked_join_family(r, thorough):
    """a JOIN suspended in its announcement while the joined user's connection goes away; a namesake signs in (fix 05c7804)"""
    cases = []
    for i in range(12 if thorough else 6):
        g = CGen(r, cfg_for(r, r.choice([("fwd-event",), ("fwd-broadcast-payload", "fwd-event")])))
        a, bb, c = g.open("alice"), g.open("bob"), g.open("carol")
        ch = r.choice(CHANS)
        g.send(a, [g.join(a, ch)])
        if r.random() < 0.5:
            g.send(c, [g.join(c, ch)])
        n = g.park()
        if i % 2 == 0:
            g.send(bb, [g.join(bb, ch)], [{"park": n}])
        else:
            g.send(a, [g.join(a, ch, ob="bob")], [{"park": n}])
        g.hangup(bb)
        if r.random() < 0.5:
            b2 = g.open("bob")       # the namesake signs in while the JOIN is still pending
            g.send(b2, [g.join(b2, r.choice(CHANS))])
        g.release(n, r.choice(["ok", "err"]))
        g.settle()
        if "bob" not in g.live.values():
            g.open("bob")
        if a in g.live:
            g.send(a, [g.bcast(a, ch)])
        g.audit()
        g.probes()
        cases.append(g.case("parked_join"))
    return cases


def cleanup_family(r, thorough):
    """a disconnect clean-up suspended in a MEMBER_LEFT call while the same name signs in again, joins and leaves
    elsewhere, members publish; then the new session ends too"""
    cases = []
    for i in range(16 if thorough else 8):
        g = CGen(r, cfg_for(r))
        a, bb, c = g.open("alice"), g.open("bob"), g.open("carol")
        chs = r.sample(CHANS, 2)
        for ch in chs:
            g.send(bb, [g.join(bb, ch)])
            g.send(r.choice([a, c]), [g.join(r.choice([a, c]), ch)]) if False else None
        g.send(a, [g.join(a, chs[0])])
        g.send(c, [g.join(c, chs[1])])
        n = g.park()
        g.hangup(a, [{"park": n}]) if r.random() < 0.5 else g.hangup(bb, [{"park": n}])
        who = "alice" if a not in g.live else "bob"
        g.bystander(c)               # a clean-up suspended in the modulator holds nobody else up
        k2 = g.open(who)             # the name is free again: the old session's clean-up is still on its way
        other = [x for x in CHANS if x not in chs][0]
        g.send(k2, [g.join(k2, r.choice([other, chs[0], chs[1]]))])
        if r.random() < 0.5:
            g.send(c, [g.bcast(c, chs[1])])
        g.release(n, r.choice(["ok", "err"]))
        g.settle()
        g.open_expect_refused(who)      # the second holder is alive: the name is taken
        if r.random() < 0.6:
            g.hangup(k2)
            g.settle()
            g.open(who)
        for k in list(g.live):
            if r.random() < 0.4:
                g.send(k, [g.bcast(k, r.choice(CHANS))])
        g.audit()
        g.probes()
        cases.append(g.case("cleanup"))
    return cases


def namesake_family(r, thorough):
    """the witness of K01a: bob is in two channels, his connection ends with the first MEMBER_LEFT call of the clean-up
    parked, a new connection identifies as bob (it joins nothing), alice publishes on both channels: the channel the
    clean-up holds makes her wait, the other one delivers to the namesake"""
    cases = []
    for i in range(3 if thorough else 1):
        g = CGen(r, cfg_for(r))
        a, bb = g.open("alice"), g.open("bob")
        chs = r.sample(CHANS, 2)
        for ch in chs:
            g.send(a, [g.join(a, ch)])
            g.send(bb, [g.join(bb, ch)])
        n = g.park()
        g.hangup(bb, [{"park": n}])
        g.direct(["bob", "alice"])           # bob has no connection at this moment: only alice gets it
        g.open("bob")
        g.direct(["bob", "bob", "carol"])    # named twice: once; carol is not connected
        for ch in chs:
            g.send(a, [g.bcast(a, ch)])
        g.release(n, "ok")
        g.settle()
        for ch in chs:
            g.send(a, [g.bcast(a, ch)])      # the clean-up is over: nothing for the namesake any more
        g.audit()
        g.probes()
        cases.append(g.case("namesake"))
    return cases


def waiting_join_hangup_family(r, thorough):
    """x's JOIN waits for a channel lock (held by y's JOIN, suspended in its announcement) when x's connection goes away;
    x is in another channel, so its clean-up suspends too (MEMBER_LEFT parked); then y's JOIN is released, then the
    clean-up.  x's waiting JOIN must have been cancelled with its connection: a namesake that joins nothing receives
    nothing, MEMBERS does not list it"""
    cases = []
    for i in range(8 if thorough else 3):
        g = CGen(r, cfg_for(r))
        o, x, y = g.open("alice"), g.open("bob"), g.open("carol")
        c, d = r.sample(CHANS, 2)
        g.send(o, [g.join(o, c)])
        g.send(x, [g.join(x, d)])
        if i % 2 == 0:
            g.send(o, [g.join(o, d)])
        n1, n2 = g.park(), g.park()
        g.send(y, [g.join(y, c)], [{"park": n1}])
        g.send(x, [g.join(x, c)])                 # waits for c's lock
        g.hangup(x, [{"park": n2}])               # the clean-up parks in MEMBER_LEFT d
        order = [n1, n2] if i % 3 != 2 else [n2, n1]
        for n in order:
            g.release(n, "ok")
        g.settle()
        g.open("bob")                             # the namesake joins nothing
        g.send(o, [g.bcast(o, c)])
        g.send(y, [g.bcast(y, c)])
        g.audit()
        g.probes()
        cases.append(g.case("waiting_join_hangup"))
    return cases


def acl_family(r, thorough):
    """allow-lists edited by the owner while other requests are suspended: a JOIN / BROADCAST / LEAVE parked in the
    modulator or waiting for the channel lock when the list changes; the list emptied again (everybody is admitted)"""
    cases = []
    for i in range(16 if thorough else 6):
        g = CGen(r, cfg_for(r, r.choice([("fwd-event",), ("fwd-broadcast-payload", "fwd-event")]), max_clients=r.choice([3, 10])))
        a, bb, c = g.open("alice"), g.open("bob"), g.open("carol")
        ch = r.choice(CHANS)
        g.send(a, [g.join(a, ch)])
        g.send(bb, [g.join(bb, ch)])
        ty = ["read", "publish", "join"][i % 3]
        n = g.park()
        # something is suspended holding (JOIN / LEAVE in its announcement) or ahead of (BROADCAST in validation) the lock
        what = r.choice(["join", "leave", "bcast"])
        if what == "join":
            g.send(c, [g.join(c, ch)], [{"park": n}])
        elif what == "leave":
            g.send(bb, [g.leave(bb, ch)], [{"park": n}])
        else:
            g.send(bb, [g.bcast(bb, ch)], [{"park": n}])
        listed = r.sample(USERS[:3], r.choice([1, 2]))
        g.send(a, [g.setacl(a, ch, ty, True, listed)])
        k = r.choice([a, bb, c])
        g.send(k, [g.getacl(k, ch, ty)] if r.random() < 0.5 else [g.bcast(k, ch)])
        g.release(n, r.choice(["ok", "ok", "err"]))
        g.settle()
        g.send(a, [g.getacl(a, ch, ty)])
        for k in sorted(g.live):
            g.send(k, [g.bcast(k, ch)])
        if c in g.live:
            g.send(c, [g.join(c, ch)])
        g.send(a, [g.setacl(a, ch, ty, False, listed)])      # emptied again: everybody
        g.send(a, [g.getacl(a, ch, ty)])
        for k in sorted(g.live):
            g.send(k, [g.bcast(k, ch)])
        g.audit()
        g.probes()
        cases.append(g.case("acl"))
    return cases


def timeout_family(r, thorough):
    """request time-outs: a request suspended in a modulator call (holding a channel lock or not) or waiting for a lock is
    dropped where it stands when request_timeout expires; its lock is given back, requests waiting behind it proceed;
    what it had already changed stays (a JOIN dropped in its announcement remains a membership in both views)"""
    cases = []
    for i in range(12 if thorough else 4):
        cfg = cfg_for(r, r.choice([("fwd-event",), ("fwd-broadcast-payload", "fwd-event")]))
        cfg["request_timeout_ms"] = 5000
        g = CGen(r, cfg)
        a, bb, c = g.open("alice"), g.open("bob"), g.open("carol")
        ch = r.choice(CHANS)
        g.send(a, [g.join(a, ch)])
        if i % 2 == 0:
            g.send(bb, [g.join(bb, ch)])
        n1, n2 = g.park(), g.park()
        first = r.choice(["join", "leave", "bcast"])
        if first == "join":
            g.send(c, [g.join(c, ch)], [{"park": n1}])
        elif first == "leave":
            g.send(a, [g.leave(a, ch)], [{"park": n1}])
        else:
            g.send(a, [g.bcast(a, ch)], [{"park": n1}])
        g.ops.append({"t": "advance", "ms": r.choice([1000, 3000]), "conc": []})
        g.bystander(bb)
        k = r.choice([a, bb, c])
        g.send(k, [r.choice([g.join, g.leave, g.members])(k, ch)], [{"park": n2}])
        g.expire(r.choice([2500, 4500, 6000]))
        g.expire(6000)
        g.release(n1, "ok")
        g.release(n2, "ok")
        g.settle()
        g.audit()
        g.probes()
        cases.append(g.case("timeout"))
    return cases


def refused_identify_family(r, thorough):
    """a connection whose IDENTIFY is refused (the name is taken) stays connected and silent: it receives nothing of what
    is routed to the name's holder, and when the holder goes away the name is free again"""
    cases = []
    for i in range(6 if thorough else 2):
        g = CGen(r, cfg_for(r))
        a, bb = g.open("alice"), g.open("bob")
        ch = r.choice(CHANS)
        g.send(a, [g.join(a, ch)])
        g.send(bb, [g.join(bb, ch)])
        x = g.open_expect_refused("bob", keep=True)
        g.send(a, [g.bcast(a, ch)])
        g.send(a, [g.leave(a, ch, ob="bob")]) if i % 2 else g.send(a, [g.bcast(a, ch)])
        n = g.park()
        g.hangup(bb, [{"park": n}] if i % 3 == 0 else [])
        g.release(n, "ok")
        g.settle()
        b2 = g.open("bob")                         # the holder is gone: the name is free again
        g.send(b2, [g.join(b2, ch)])
        g.send(a, [g.bcast(a, ch)])
        g.hangup_plain(x)
        g.audit()
        g.probes()
        cases.append(g.case("refused_identify"))
    return cases


def owner_leave_family(r, thorough):
    """the owner's LEAVE suspended in its first or second announcement while others join, leave, publish; optionally the
    owner's connection goes away meanwhile (the request is cancelled where it stands)"""
    cases = []
    for i in range(16 if thorough else 8):
        g = CGen(r, cfg_for(r))
        a, bb, c = g.open("alice"), g.open("bob"), g.open("carol")
        ch = r.choice(CHANS)
        g.send(a, [g.join(a, ch)])
        g.send(bb, [g.join(bb, ch)])
        n1, n2 = g.park(), g.park()
        second = i % 2 == 0
        g.send(a, [g.leave(a, ch)], ["ok", {"park": n2}] if second else [{"park": n1}])
        g.bystander(c)
        act = r.choice(["join", "leave", "bcast", "kick"])
        if act == "join":
            g.send(c, [g.join(c, ch)])
        elif act == "leave":
            g.send(bb, [g.leave(bb, ch)])
        elif act == "bcast":
            g.send(bb, [g.bcast(bb, ch)])
        else:
            g.send(bb, [g.leave(bb, ch, ob="alice")])
        if i % 4 in (0, 1):
            g.hangup(a)              # the owner's request is dropped where it stands
        g.release(n2 if second else n1, r.choice(["ok", "err"]))
        g.settle()
        g.audit()
        g.probes()
        cases.append(g.case("owner_leave"))
    return cases


def overlap_join_family(r, thorough):
    """two or three JOINs of one user in flight together under a small subscription limit / a small channel"""
    cases = []
    for i in range(12 if thorough else 6):
        small_subs = i % 2 == 0
        g = CGen(r, cfg_for(r, max_subs=r.choice([1, 2]) if small_subs else 10, max_clients=10 if small_subs else 2))
        a, bb, c = g.open("alice"), g.open("bob"), g.open("carol")
        ps = [g.park(), g.park(), g.park()]
        if small_subs:
            chs = r.sample(CHANS, 3)
            g.send(bb, [g.join(bb, chs[0])])          # bob owns chs[0]; alice's join there will wait for the lock
            g.send(bb, [g.leave(bb, chs[0])], [{"park": ps[0]}]) if r.random() < 0.5 else g.send(c, [g.join(c, chs[0])], [{"park": ps[0]}])
            g.send(a, [g.join(a, chs[0]), g.join(a, chs[1]), g.join(a, chs[2])], [{"park": ps[1]}, {"park": ps[2]}])
            order = ps[:]
            r.shuffle(order)
            for n in order:
                g.release(n, r.choice(["ok", "ok", "err"]))
        else:
            ch = r.choice(CHANS)
            g.send(a, [g.join(a, ch)])
            g.send(bb, [g.join(bb, ch)], [{"park": ps[0]}])
            g.send(c, [g.join(c, ch)])
            g.release(ps[0], r.choice(["ok", "err"]))
        g.settle()
        g.audit()
        g.probes()
        cases.append(g.case("overlap_join"))
    return cases


def random_family(r, thorough):
    """random interleavings: every modulator call is parked with some probability and released later, in any order;
    connections go away and names come back while requests are suspended"""
    cases = []
    for i in range(80 if thorough else 24):
        g = CGen(r, cfg_for(r, r.choice([("fwd-event",), ("fwd-event",), ("fwd-broadcast-payload", "fwd-event")]),
                        max_subs=r.choice([2, 10]), max_clients=r.choice([2, 10])))
        for u in USERS[:3]:
            g.open(u)
        outstanding = []
        reader_sent = set()      # channels on which a reading request (BROADCAST / MEMBERS / GET_CHAN_ACL) may still be waiting
        inflight = {}            # upper bound of the requests of a connection that may still be in progress (the model has no
                                 # in-flight limit: the histories stay below max_inflight_requests = 10)
        for step in range(r.randrange(8, 18)):
            if not outstanding:
                reader_sent.clear()
                inflight = {}
            x = r.random()
            live = sorted(g.live)
            if not live:
                g.open(r.choice(USERS[:3]))
                continue
            k = r.choice(live)
            if inflight.get(k, 0) >= 8 and x < 0.70:
                if outstanding:
                    g.release(outstanding.pop(r.randrange(len(outstanding))), r.choice(["ok", "ok", "err"]))
                continue
            if x < 0.70:
                inflight[k] = inflight.get(k, 0) + 1
            sc = []
            for _ in range(2):
                y = r.random()
                if y < 0.45:
                    n = g.park()
                    outstanding.append(n)
                    sc.append({"park": n})
                elif y < 0.55:
                    sc.append("err")
                else:
                    sc.append("ok")
            ch = r.choice(CHANS[:2])
            # at most one reading request per channel may wait for a channel lock at a time: two readers waiting behind
            # a writer that is overtaken by another writer hand the "no writer" notification to each other for ever
            # (async-lock 3.4 RawRead::poll notifies the next reader whether or not it could take the lock): the worker
            # spins until the writer leaves, and under the harness's paused clock "until" never comes (DESIGN section 5)
            if 0.45 <= x < 0.70 and not (0.64 <= x < 0.70 and False):
                if ch in reader_sent:
                    x = 0.10 if r.random() < 0.6 else 0.40          # a JOIN or a LEAVE instead
                else:
                    reader_sent.add(ch)
            if x < 0.30:
                g.send(k, [g.join(k, ch, ob=r.choice([None, None, None] + USERS[:3]))], sc)
            elif x < 0.45:
                g.send(k, [g.leave(k, ch, ob=r.choice([None, None, None] + USERS[:3]))], sc)
            elif x < 0.60:
                g.send(k, [g.bcast(k, ch)], sc)
            elif x < 0.64:
                g.send(k, [g.members(k, ch)], sc)
            elif x < 0.70:
                ty = r.choice(["read", "read", "publish", "join"])
                if r.random() < 0.75:
                    g.send(k, [g.setacl(k, ch, ty, r.random() < 0.6, r.sample(USERS[:3], r.choice([1, 1, 2])))], sc)
                else:
                    g.send(k, [g.getacl(k, ch, ty)], sc)
            elif x < 0.74 and outstanding:
                g.release(outstanding.pop(r.randrange(len(outstanding))), r.choice(["ok", "ok", "err"]))
            elif x < 0.78:
                g.direct(r.sample(USERS[:3], r.choice([1, 2])) + ([r.choice(USERS[:3])] if r.random() < 0.3 else []))
            elif x < 0.86:
                g.hangup(k, sc)
            elif x < 0.94:
                missing = [u for u in USERS[:3] if u not in g.live.values()]
                if missing:
                    g.open(r.choice(missing))
            elif outstanding:
                n = outstanding.pop(r.randrange(len(outstanding)))
                k2 = r.choice(live)
                g.batch([("send", k2, [g.join(k2, ch)]), ("release", n, r.choice(["ok", "err"]))] if r.random() < 0.5
                        else [("release", n, r.choice(["ok", "err"])), ("send", k2, [g.leave(k2, ch)])], sc)
        # every park id ever issued is released (again) before the audit: a release written into the same batch as the
        # request that parks the call comes too early and would leave the call parked for good
        allp = list(range(1, g.next_park))
        r.shuffle(allp)
        for n in allp:
            g.release(n, r.choice(["ok", "ok", "err"]))
        g.settle()
        g.audit()
        g.probes()
        cases.append(g.case("random"))
    return cases


def histories(r, thorough):
    return (namesake_family(r, thorough) + waiting_join_hangup_family(r, thorough) + acl_family(r, thorough) + timeout_family(r, thorough) + refused_identify_family(r, thorough) + orphan_family(r, thorough) + parked_join_family(r, thorough) + cleanup_family(r, thorough)
            + owner_leave_family(r, thorough) + overlap_join_family(r, thorough) + random_family(r, thorough))


# ---------- monitors on the implementation's traces (independent of the model) ----------
def monitor(case, obs):
    """Interleaving-aware monitors in the properties' own terms.  Replies are matched to requests by (connection, id)
    whatever the op they arrive in.  Returns (tag, what, op index); tag "K01a" marks the known finding."""
    if "ops" not in obs:
        return [("SETUP", "setup error: " + str(obs)[:200], 0)]
    cfg = case["cfg"]
    viol = []
    user, start, gone, reqs = {}, {}, set(), {}
    sessions_ended = {}      # user -> op index at which its latest session ended
    join_sent, left_at = {}, {}
    chans_listed, members_seen, owners = {}, {}, {}
    acl_seen, acl_touched = {}, set()      # (channel, type) -> reported list (user names); channels whose lists were ever edited
    was_parked = False
    fn, fg = sl.frame_name, srvmon.fget

    def live_sessions(u):
        return [k for k, x in user.items() if x == u and k not in gone]

    def end_session(k, t):
        if k in gone:
            return
        gone.add(k)
        u = user.get(k)
        if u is not None and not live_sessions(u):
            sessions_ended[u] = t

    def mset(ch):
        m = set()
        for (k, c), l in members_seen.items():
            if c == ch:
                m |= set(l)
        return m

    ops = list(zip(case["ops"], obs["ops"]))
    for t, (op, o) in enumerate(ops):
        for rq in op.get("reqs", []):
            reqs[(rq["k"], rq["id"])] = rq
            rq["sent_op"] = t
            if rq["kind"] == "SET_CHAN_ACL":
                acl_touched.add(rq["ch"])
            if rq["kind"] == "JOIN" and rq.get("who"):
                rq["sent_at"], rq["ack_at"] = t, None
                join_sent.setdefault((rq["who"], rq["ch"]), []).append(rq)
        # (a MEMBER_LEFT call seen by the modulator is only an attempt: the request may still be dropped before it removes
        #  anybody; departures are taken from what the CLIENTS are told: LEAVE_ACK and MEMBER_LEFT events)
        parked_now = bool(o.get("parked")) or was_parked
        if op["t"] == "hangup":
            end_session(op["k"], t)
        for k2 in op.get("hangups", []):
            end_session(k2, t)
        recv = {int(k): v for k, v in o["conns"].items()}
        gone_before = set(gone)
        for k, v in sorted(recv.items()):
            for f in v["frames"]:
                if "undecodable" in f:
                    viol.append(("C15", "undecodable frame on the wire", t))
                    continue
                n = fn(f)
                if n == "IDENTIFY_ACK":
                    name = fg(f, "nid").decode("latin1").split("@")[0]
                    holders = [k2 for k2 in live_sessions(name) if k2 != k]
                    if holders:
                        viol.append(("C07", f"connection {k} was assigned the identity {name} while connection {holders[0]}, still alive, holds it", t))
                    user[k] = name
                    start[k] = t
                elif n == "ERROR" and fg(f, "reason") == b"USERNAME_IN_USE" and op.get("ident") and op["ident"][0] == k:
                    if not [k2 for k2 in live_sessions(op["ident"][1]) if k2 != k]:
                        viol.append(("C07", f"IDENTIFY as {op['ident'][1]} on connection {k} refused with USERNAME_IN_USE although no live connection holds that name", t))
                elif n in ("EVENT",) and k not in user:
                    viol.append(("C06", f"connection {k}, which never completed its handshake, was sent an EVENT", t))
                elif n == "JOIN_ACK":
                    rq = reqs.get((k, fg(f, "id")))
                    if rq is not None:
                        rq["ack_at"] = t
                elif n == "LEAVE_ACK":
                    rq = reqs.get((k, fg(f, "id")))
                    if rq and rq.get("who"):
                        left_at.setdefault((rq["who"], rq["ch"]), []).append(t)
                elif n == "EVENT" and fg(f, "kind") == b"MEMBER_LEFT":
                    left_at.setdefault((fg(f, "nid").decode("latin1").split("@")[0], fg(f, "channel").decode("latin1")), []).append(t)
                elif n == "MESSAGE":
                    u, ch = user.get(k), fg(f, "channel").decode("latin1")
                    if u is None:
                        viol.append(("C01", f"MESSAGE on {ch} delivered to connection {k}, which has not authenticated", t))
                        viol.append(("C06", f"connection {k}, which never completed its handshake, was sent a MESSAGE on {ch}", t))
                        continue
                    # a JOIN for (u, ch) sent since this session began justifies the delivery unless the user has demonstrably
                    # left since that JOIN took effect (its acknowledgement; departures announced in the same op are ambiguous)
                    js = [rq for rq in join_sent.get((u, ch), []) if rq["sent_at"] <= t and (start.get(k, 0) <= rq["sent_at"] or (rq["ack_at"] is not None and start.get(k, 0) <= rq["ack_at"]))]
                    okj = any(not any((rq["ack_at"] if rq["ack_at"] is not None else rq["sent_at"]) < tl < t for tl in left_at.get((u, ch), [])) for rq in js)
                    if not okj:
                        what = (f"connection {k} ({u}) received a MESSAGE on {ch} although no JOIN for {u} on {ch} was sent since this session began "
                                f"(or the user has left / was removed since)")
                        if not js and u in sessions_ended and sessions_ended[u] <= start.get(k, 0) and parked_now:
                            viol.append(("K01a", what + ": the previous session's clean-up was still in progress", t))
                        else:
                            viol.append(("C01", what, t))
            if v.get("closed"):
                end_session(k, t)
            # a closing ERROR: the server has ended this connection even if the client has not seen the EOF yet
            if any("undecodable" not in f and fn(f) == "ERROR" and fg(f, "reason").decode("latin1") not in RECOVERABLE for f in v["frames"]):
                end_session(k, t)
        if op.get("direct"):
            want = {k for k in user if k not in gone and user[k] in op["direct"]["users"]}
            for k, v in sorted(recv.items()):
                got = [f for f in v["frames"] if "undecodable" not in f and fn(f) == "MOD_DIRECT"]
                if got and k not in want:
                    viol.append(("C17", f"connection {k} ({user.get(k)}) received a direct payload addressed to {op['direct']['users']}", t))
                if len(got) > 1:
                    viol.append(("C17", f"connection {k} received the direct payload {len(got)} times", t))
                for f in got:
                    if bytes.fromhex(f.get("payload") or "") != PAYLOADS[op["direct"]["payload"]]:
                        viol.append(("C17", f"connection {k} received a direct payload with other bytes than the modulator pushed", t))
            for k in sorted(want):
                if not [f for f in recv.get(k, {"frames": []})["frames"] if "undecodable" not in f and fn(f) == "MOD_DIRECT"] and not recv.get(k, {}).get("closed"):
                    viol.append(("C17", f"connection {k} ({user[k]}), a live connection of an addressed user, did not receive the direct payload", t))
        else:
            for k, v in recv.items():
                if any("undecodable" not in f and fn(f) == "MOD_DIRECT" for f in v["frames"]):
                    viol.append(("C17", f"connection {k} received a MOD_DIRECT although the modulator pushed nothing in this step", t))
        was_parked = bool(o.get("parked"))
        k0 = op.get("k")
        fr = [f for f in recv.get(k0, {"frames": []})["frames"] if "undecodable" not in f] if k0 is not None else []
        if op.get("expect_now") and k0 is not None and k0 not in gone:
            rq = op["reqs"][0]
            if not any(("undecodable" not in f) and fn(f) in ("CHANNELS_ACK", "ERROR") and fg(f, "id") == rq["id"] for f in fr):
                viol.append(("C13", f"CHANNELS on connection {k0} (needs no channel lock, no modulator) was not answered while other requests are suspended: the worker or a lock every request needs is held up", t))
        if op.get("audit") == "channels":
            for f in fr:
                if fn(f) == "CHANNELS_ACK":
                    chans_listed[k0] = [x.decode("latin1") for x in (fg(f, "channels") or [])]
                    if len(chans_listed[k0]) > cfg["max_subs"]:
                        viol.append(("C14", f"{user.get(k0)} is listed in {len(chans_listed[k0])} channels: max_channels_per_client is {cfg['max_subs']}", t))
        if op.get("audit") == "members":
            for f in fr:
                if fn(f) == "MEMBERS_ACK":
                    members_seen[(k0, op["channel"])] = [x.decode("latin1").split("@")[0] for x in (fg(f, "members") or [])]
                    if len(members_seen[(k0, op["channel"])]) > cfg["max_clients"]:
                        viol.append(("C14", f"{op['channel']} has {len(members_seen[(k0, op['channel'])])} members: max_clients_per_channel is {cfg['max_clients']}", t))
        if op.get("audit_acl"):
            for f in fr:
                if fn(f) == "CHAN_ACL":
                    acl_seen[tuple(op["audit_acl"])] = [x.decode("latin1").split("@")[0] for x in (fg(f, "nids") or [])]
        if op.get("probe") == "owner":
            rq = op["reqs"][0]
            errs = [fg(f, "reason") for f in fr if fn(f) == "ERROR" and fg(f, "id") == rq["id"]]
            if errs[:1] == [b"USER_NOT_IN_CHANNEL"]:
                owners.setdefault(rq["ch"], set()).add(user.get(k0))
        if op.get("probe") == "publish":
            rq = op["reqs"][0]
            ch = rq["ch"]
            if not op.get("owners_judged"):
                pass
            m = mset(ch)
            acked = any(fn(f) == "BROADCAST_ACK" and fg(f, "id") == rq["id"] for f in fr)
            # the read list as reported to the owner at the audit ([] when the lists of this channel were never edited);
            # unknown (edited, but no live owner to ask): delivery is not judged for this channel
            rl = acl_seen.get((ch, "read"), None if ch in acl_touched else [])
            pl = acl_seen.get((ch, "publish"), None if ch in acl_touched else [])
            permits = lambda lst, u: (not lst) or (u in lst)
            for k2 in sorted(user):
                if k2 == k0 or k2 in gone:
                    continue
                got = [f for f in recv.get(k2, {"frames": []})["frames"] if "undecodable" not in f and fn(f) == "MESSAGE" and fg(f, "channel").decode("latin1") == ch]
                if acked and rl is not None and user[k2] in m and permits(rl, user[k2]) and user.get(k0) in m and not got:
                    viol.append(("C02", f"acknowledged BROADCAST on {ch} by {user.get(k0)}: member {user[k2]} (connection {k2}, listed by MEMBERS, admitted by the reported read list {rl}) received nothing", t))
                    viol.append(("C03", f"delivery contradicts the reported read list of {ch} ({rl}): member {user[k2]} is admitted but the acknowledged BROADCAST did not reach it", t))
                if got and user[k2] not in m:
                    viol.append(("C01", f"BROADCAST on {ch}: {user[k2]} (connection {k2}) received it although MEMBERS does not list that user", t))
                if got and rl is not None and not permits(rl, user[k2]):
                    viol.append(("C03", f"BROADCAST on {ch}: {user[k2]} (connection {k2}) received it although the reported read list {rl} does not admit that user", t))
            if acked and pl is not None and not permits(pl, user.get(k0)):
                viol.append(("C03", f"BROADCAST on {ch} by {user.get(k0)} acknowledged although the reported publish list {pl} does not admit that user", t))
            if acked and user.get(k0) not in m:
                viol.append(("C04", f"BROADCAST on {ch} acknowledged for {user.get(k0)}, whom MEMBERS does not list", t))
        if op.get("probe") == "window" and k0 not in gone_before:
            ids = [rq["id"] for rq in op["reqs"]]
            got = [fg(f, "id") for f in fr if fn(f) == "CHANNELS_ACK"]
            missing = [i for i in ids if i not in got]
            if missing or recv.get(k0, {}).get("closed") or any(fn(f) == "ERROR" for f in fr):
                what = (f"a full window of {len(ids)} pipelined requests on connection {k0} (nothing else in flight) was not served: unanswered {missing[:4]}, "
                        f"errors {[fg(f, 'reason') for f in fr if fn(f) == 'ERROR']}, closed={recv.get(k0, {}).get('closed')}: the in-flight accounting drifted")
                viol.append(("C12", what, t))
                viol.append(("C14", what, t))
                viol.append(("C13", what, t))
        if op.get("probe") == "departure":
            k = op["k"]
            u = user.get(k)
            if u is not None and not live_sessions(u):
                later = ops[t:t + 2]
                for ch in sorted(set(chans_listed.get(k, [])) | {c for c in CHANS if u in mset(c)}):
                    for k2 in sorted(user):
                        if k2 in gone or user[k2] == u or user[k2] not in mset(ch):
                            continue
                        seen = any(fn(f) == "EVENT" and fg(f, "kind") == b"MEMBER_LEFT" and fg(f, "channel").decode("latin1") == ch
                                   and fg(f, "nid").decode("latin1").split("@")[0] == u
                                   for (_, o2) in later for f in o2["conns"].get(str(k2), {"frames": []})["frames"] if "undecodable" not in f)
                        if not seen:
                            viol.append(("C18", f"{u}'s last connection ended: member {user[k2]} of {ch} (connection {k2}) was not told MEMBER_LEFT", t))
        if op.get("probe") == "after_departure":
            for f in fr:
                if fn(f) == "MEMBERS_ACK" and op["departed"] in [x.decode("latin1").split("@")[0] for x in (fg(f, "members") or [])] \
                        and not live_sessions(op["departed"]):
                    viol.append(("C05", f"{op['departed']} is still listed in MEMBERS of {op['reqs'][0]['ch']} after its last connection ended and the clean-up settled", t))
    # C12: every request is answered exactly once under its id, whatever was interleaved (all parked calls have been released
    # before the audit, so nothing is still in progress at the end); a connection that ended may have lost its answer
    nrep = {}
    for t, (op, o) in enumerate(ops):
        for k, v in o["conns"].items():
            for f in v["frames"]:
                if "undecodable" in f or fn(f) in ("PING", "PONG", "MESSAGE", "EVENT", "CONNECT_ACK", "IDENTIFY_ACK"):
                    continue
                if any(fd["pname"] == "id" for fd in sl.cg.schema()[f["kind"]][2]):
                    i = fg(f, "id")
                    if i is not None:
                        nrep[(int(k), i)] = nrep.get((int(k), i), 0) + 1
                        if (int(k), i) not in reqs:
                            viol.append(("C12", f"frame {fn(f)} with id {i} that connection {k} never sent", t))
    expire_ops = [t for t, (op, o) in enumerate(ops) if op.get("expire")]
    for (k, i), rq in sorted(reqs.items()):
        n = nrep.get((k, i), 0)
        if n == 0 and any(rq.get("sent_op", 10 ** 9) < t for t in expire_ops):
            continue      # dropped at its request time-out (K13b, reported by C13's own check): no reply is the known behaviour
        if n > 1:
            viol.append(("C12", f"{rq['kind']} id={i} on connection {k} was answered {n} times", len(ops) - 1))
        if n == 0 and k not in gone:
            viol.append(("C12", f"{rq['kind']} id={i} on connection {k} was never answered although the connection is alive and nothing is suspended any more", len(ops) - 1))
    # C04: every channel with members has exactly one of them as its owner (judged from the owner probes)
    for ch in CHANS:
        m = mset(ch)
        probed = {user[k] for k in user if k not in gone} & m
        if m and probed == m:
            own = owners.get(ch, set())
            if len(own & m) != 1:
                viol.append(("C04", f"{ch} has members {sorted(m)} but the owner probe (removal on behalf of a non-member) was accepted for {sorted(own)}: exactly one member must own it", len(ops) - 1))
    return viol


# ---------- running the histories, with a classification of histories on which the process does not come back ----------
def run_conc(cases, tag, batch_timeout=180):
    """(observations or None, spinning, blocked): runs the batch; if it does not come back, every history is run on its own
    and a history whose process is still there after 20 s is classified by what the process does: burning CPU without ever
    becoming idle (the runtime is never idle, so the paused clock never advances: the reader hand-off loop of the RwLock,
    a library behaviour recorded in DESIGN section 5) -> skipped and counted; asleep -> a blocked worker, reported."""
    import json, os, subprocess, time
    from common import harness_bin, WORK, ENV
    obs, out = sl.run_histories(cases, "debug", tag=tag, timeout=batch_timeout)
    if obs is not None:
        return obs, [], []
    res, spinning, blocked = [], [], []
    for i, c in enumerate(cases):
        cin, cout = os.path.join(WORK, f"h_one_{tag}_in.json"), os.path.join(WORK, f"h_one_{tag}_out.json")
        json.dump([c], open(cin, "w"))
        if os.path.exists(cout):
            os.remove(cout)
        p = subprocess.Popen([harness_bin("debug"), "server", cin, cout], stdout=subprocess.DEVNULL, stderr=subprocess.DEVNULL, env=ENV)
        t0 = time.time()
        while p.poll() is None and time.time() - t0 < 20:
            time.sleep(0.05)
        if p.poll() is None:
            def ticks():
                f = open("/proc/%d/stat" % p.pid).read().rsplit(")", 1)[1].split()
                return int(f[11]) + int(f[12])
            try:
                a = ticks()
                time.sleep(0.5)
                busy = ticks() - a >= 20
            except OSError:
                busy = False
            p.kill()
            p.wait()
            (spinning if busy else blocked).append(i)
            res.append({"setup_error": "history skipped: the process did not come back (%s)" % ("busy" if busy else "blocked")})
        elif os.path.exists(cout):
            res.append(json.load(open(cout))[0])
        else:
            res.append({"setup_error": "harness exited %s without output" % p.returncode})
    return res, spinning, blocked
