"""C08 — decided on the server model; see lib/srvprops.py and coq/Props/C08.v"""
import serverlib as sl
import srvprops

PROP = "C08"
THEOREMS = ["C08_gate_fail_closed", "C08_alteration_exact", "C08_no_alteration_passthrough", "C08_attribution", "C08_whole_frame", "C08_client_accepts_only_valid", "C08_link_transparent", "C08_link_fail_closed", "C08_reply_is_correlated", "C08_outcome_accept_only", "C08_concurrent_requests_transparent", "C08_concurrent_unanswered_fails", "C08_concurrent_fail_closed", "C08_concurrent_example"]


LINK_NOTE = "Modulator-link stage: the real S2M/M2S dispatchers (crates/modulator/src/conn.rs) behind the real connection engine are fed raw byte chunks (handshakes with right/wrong/missing secret and version, the whole three-link vocabulary in each phase, payloads, scripted modulator outcomes) and compared chunk by chunk with Model/Link.v inside coqc (Conf/LinkConf.link_conf); the real S2mClient (crates/modulator/src/client.rs) is run against a scripted wire peer (sensible, contradictory, mis-correlated, malformed, missing replies, dropped links) and each call's result is compared with Model/Link.v's reply mapping (Conf/LinkConf.client_conf); a share of the server histories runs with the real S2M/M2S wire path between server and modulator (unix sockets), including histories in which the modulator process goes away (listener gone, links ended): every delegated decision must fail closed."


def pipelined_stage(thorough, violations, stats):
    """two BROADCASTs pipelined on ONE connection while the modulator's verdict for the first is still pending: the second
    must be validated as well (refused when the modulator says invalid, delivered with the modulator's bytes when it alters
    the payload) — each request consults the modulator, whatever else that connection has in flight"""
    from common import Rng, seed
    r = Rng(seed() + 59)
    cases = []
    for i in range(24 if thorough else 8):
        mod = r.choice([m for m in sl.MOD_CONFIGS if m and "fwd-broadcast-payload" in m["ops"] and "auth" not in m["ops"]])
        cfg = sl.base_cfg(r, mod)
        cfg.update({"max_clients": 10, "max_subs": 10, "max_conns": 16, "max_channels": 100, "max_inflight": 10, "max_payload": 1024})
        g = sl.Gen(r, cfg)
        ks = sl._login(g, ["alice", "bob"])
        ch = "!c1@localhost"
        for u in ("alice", "bob"):
            g.send(ks[u], sl.frame("JOIN", [("id", g.rid()), ("channel", ch)]), [])
        first, second = b"first-" + bytes([65 + i]), b"second-" + bytes([65 + i])
        v2 = r.choice(["invalid", "invalid", {"altered": (b"ALTERED-" + bytes([65 + i])).hex()}, "err"])
        id1, id2 = g.rid(), g.rid()
        g.ops.append({"t": "send", "k": ks["alice"], "bytes": sl.frame("BROADCAST", [("id", id1), ("channel", ch), ("length", len(first)), ("qos", 1)], first).hex(), "script": [{"park": 1}]})
        g.ops.append({"t": "send", "k": ks["alice"], "bytes": sl.frame("BROADCAST", [("id", id2), ("channel", ch), ("length", len(second)), ("qos", 1)], second).hex(), "script": [v2]})
        v1 = r.choice(["ok", "ok", "invalid"])
        g.ops.append({"t": "release", "id": 1, "outcome": v1})
        g.ops.append({"t": "advance", "ms": 20})
        cases.append({"cfg": cfg, "ops": g.ops, "nomodel": True, "pipe": {"bob": ks["bob"], "alice": ks["alice"], "first": first.hex(), "second": second.hex(), "v1": v1, "v2": v2, "id1": id1, "id2": id2}})
    obs, out = sl.run_histories(cases, "debug", tag="c08pipe", timeout=600)
    if obs is None:
        violations.append((PROP, "pipelined-validation histories crashed or hung: " + out[-300:], cases[0], 0))
        return
    stats["pipelined_validation_histories"] = len(cases)
    for c, ob in zip(cases, obs):
        if "ops" not in ob:
            violations.append((PROP, "pipelined-validation history could not run: " + str(ob)[:200], c, 0))
            continue
        p = c["pipe"]
        got, acks, errs = [], set(), set()
        for t, o in enumerate(ob["ops"]):
            for f in o["conns"].get(str(p["bob"]), {"frames": []})["frames"]:
                if "undecodable" not in f and sl.frame_name(f) == "MESSAGE":
                    got.append(f["payload"])
            for f in o["conns"].get(str(p["alice"]), {"frames": []})["frames"]:
                if "undecodable" in f:
                    continue
                if sl.frame_name(f) == "BROADCAST_ACK":
                    acks.add(sl.frame_get(f, "id"))
                if sl.frame_name(f) == "ERROR" and sl.frame_get(f, "id") is not None:
                    errs.add(sl.frame_get(f, "id"))
        want2 = None if p["v2"] in ("invalid", "err") else p["v2"]["altered"]
        if p["second"] in got:
            violations.append((PROP, f"the second of two pipelined broadcasts was delivered as sent although the modulator's verdict for it was {p['v2'] if isinstance(p['v2'], str) else 'an alteration'} (the first was still being validated)", c, 0))
        elif want2 is None and p["id2"] in acks:
            violations.append((PROP, "the second of two pipelined broadcasts was acknowledged although the modulator refused it", c, 0))
        elif want2 is not None and want2 not in got:
            violations.append((PROP, "the altered payload of the second pipelined broadcast was not delivered", c, 0))
        if p["v1"] == "invalid" and p["first"] in got:
            violations.append((PROP, "the first broadcast was delivered although the modulator refused it", c, 0))


def run(tier, replay=None):
    return srvprops.run(PROP, THEOREMS, tier, replay, extra_gen=sl.outage_histories, link=("link", "client"), extra_stage=pipelined_stage, rule_note=LINK_NOTE + " Pipelined stage: two BROADCASTs on one connection while the first verdict is pending: the second is validated as well.")
