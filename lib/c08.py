"""C08 — decided on the server model; see lib/srvprops.py and coq/Props/C08.v"""
import srvprops

PROP = "C08"
THEOREMS = ["C08_gate_fail_closed", "C08_alteration_exact", "C08_no_alteration_passthrough", "C08_attribution", "C08_whole_frame"]


def run(tier, replay=None):
    return srvprops.run(PROP, THEOREMS, tier, replay)
