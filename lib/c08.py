"""C08 — decided on the server model; see lib/srvprops.py and coq/Props/C08.v"""
import srvprops

PROP = "C08"
THEOREMS = ["C08_model_smoke"]


def run(tier, replay=None):
    return srvprops.run(PROP, THEOREMS, tier, replay)
