"""Property monitors evaluated on traces OBSERVED ON THE IMPLEMENTATION (independent of the Coq model).
A light tracker reconstructs, from the frames the clients received, who is who and who has joined
what; each monitor returns a list of (property, message, op index)."""
import re
import unicodedata

import serverlib as sl


def fname(f):
    return sl.frame_name(f)


def fget(f, p):
    v = sl.frame_get(f, p)
    if isinstance(v, str):
        try:
            return bytes.fromhex(v)
        except ValueError:
            return v
    if isinstance(v, list):
        return [bytes.fromhex(x) for x in v]
    return v


def parse_sent(data):
    """the client's own request frames in one send op: list of (kind, params dict, payload)"""
    out = []
    i = 0
    while i < len(data):
        nl = data.find(b"\n", i)
        if nl < 0:
            break
        line = data[i:nl]
        toks = line.split(b" ")
        kind = toks[0].decode("latin1")
        params = {}
        j = 1
        while j < len(toks):
            t = toks[j]
            j += 1
            if b"=" in t:
                k, v = t.split(b"=", 1)
                name = k.decode("latin1")
                if ":" in name:
                    # an array parameter `name:N=v1 v2 .. vN`: the following N-1 tokens belong to it (plain values only)
                    try:
                        cnt = int(name.split(":", 1)[1])
                    except ValueError:
                        cnt = 1
                    extra = toks[j:j + max(0, cnt - 1)]
                    if all(b"=" not in x for x in extra):
                        v = b" ".join([v] + extra)
                        j += len(extra)
                params[name.split(":")[0]] = v
        i = nl + 1
        pl = None
        if kind in ("BROADCAST", "MOD_DIRECT", "MESSAGE", "M2S_MOD_DIRECT") and b"length" in [k.encode() for k in params]:
            try:
                n = int(params["length"])
                pl = data[i:i + n]
                i += n + 1
            except ValueError:
                pass
        out.append((kind, params, pl))
    return out


class Tracker:
    def __init__(self, case, obs):
        self.case, self.obs = case, obs
        self.user = {}          # conn -> nid bytes (after IDENTIFY_ACK / AUTH_ACK)
        self.live = set()
        self.members = {}       # channel full id (bytes) -> set of nid bytes
        self.read_acl_touched = set()
        self.acl = {}           # (channel, type) -> set of entries, tracked from the channel's creation through acknowledged updates
        self.acl_plain = {}     # channel -> False once an entry that is not a plain nid / domain was acknowledged
        self.cfg_touched = set()
        self.owner = {}         # channel -> nid of the owner as announced to the clients (None = not known)
        self.spelling = {}      # raw IDENTIFY username bytes -> NID the server assigned for that spelling
        self.viol = []

    def conns_of(self, nid):
        return [k for k in self.live if self.user.get(k) == nid]

    def run(self):
        case, obs = self.case, self.obs
        domain = case["cfg"]["domain"].encode()
        pending = {}            # (conn, id) -> op index sent
        sent_ids = set()        # every (conn, id) a client put on the wire
        replies = {}            # (conn, id) -> count
        closed_at = {}
        for t, (op, o) in enumerate(zip(case["ops"], obs["ops"])):
            recv = {int(k): v for k, v in o["conns"].items()}
            sent = parse_sent(sl.op_bytes(op)) if op["t"] == "send" else []
            k0 = op.get("k")
            if op["t"] == "open":
                refused = any("undecodable" not in f and fname(f) == "ERROR" and fget(f, "reason") == b"SERVER_OVERLOADED"
                              for f in recv.get(k0, {"frames": []})["frames"])
                if refused and len(self.live) < self.case["cfg"]["max_conns"]:
                    self.viol.append(("C14", f"connection refused with SERVER_OVERLOADED while only {len(self.live)} connections are alive (max_connections {self.case['cfg']['max_conns']})", t))
                if not refused and len(self.live) >= self.case["cfg"]["max_conns"] and not recv.get(k0, {}).get("closed"):
                    self.viol.append(("C14", f"connection admitted while {len(self.live)} connections are alive (max_connections {self.case['cfg']['max_conns']})", t))
                if not refused:
                    self.live.add(k0)
            if op.get("window"):
                ids = [int(params["id"]) for (kind, params, pl) in sent if "id" in params]
                got = [sl.frame_get(f, "id") for f in recv.get(k0, {"frames": []})["frames"] if "undecodable" not in f]
                missing = [i for i in ids if i not in got]
                if missing or recv.get(k0, {}).get("closed"):
                    self.viol.append(("C14", f"a full window of {op['window']} pipelined requests was not served after earlier requests timed out: unanswered {missing}, closed={recv.get(k0, {}).get('closed')}", t))
            members_before = {c: set(m) for c, m in self.members.items()}
            self.owner_before = dict(self.owner)
            users_before = dict(self.user)
            live_before = set(self.live)
            # ---- requests sent in this op (registered first: replies arrive within the same op)
            for (kind, params, pl) in sent:
                if "id" in params and kind not in ("PING", "PONG"):
                    try:
                        if int(params["id"]) != 0:
                            sent_ids.add((k0, int(params["id"])))      # (an unauthenticated sender may still get its id back, e.g. payload too large)
                            if k0 in users_before:
                                pending[(k0, int(params["id"]))] = t
                    except ValueError:
                        pass
            # ---- frames received in this op
            acked_joins, acked_leaves = [], []
            for k, v in recv.items():
                for f in v["frames"]:
                    if "undecodable" in f:
                        self.viol.append(("C15", "undecodable frame on the wire", t))
                        continue
                    n = fname(f)
                    if n == "IDENTIFY_ACK":
                        self.user[k] = fget(f, "nid")
                        self.check_identity(k, fget(f, "nid"), domain, t, exclusive=True)
                    if n == "AUTH_ACK" and sl.frame_get(f, "succeeded") is True:
                        self.user[k] = fget(f, "nid")
                        self.check_identity(k, fget(f, "nid"), domain, t, exclusive=False)
                        # C09: only the modulator's success to a token sent in THIS op authenticates, as exactly that name
                        sc = [o for o in (op.get("script") or []) if isinstance(o, dict) and "auth_success" in o]
                        toks = [1 for (kind, params, pl) in sent if kind == "AUTH"]
                        if k != k0 or not toks:
                            self.viol.append(("C09", f"conn {k} was authenticated without having sent an AUTH in this step", t))
                        elif not sc:
                            self.viol.append(("C09", f"conn {k} authenticated although the modulator did not answer success ({op.get('script')})", t))
                        elif fget(f, "nid") != bytes.fromhex(sc[0]["auth_success"]) + b"@" + domain:
                            self.viol.append(("C09", f"conn {k} authenticated as {fget(f, 'nid')!r} but the modulator returned {bytes.fromhex(sc[0]['auth_success'])!r}", t))
                    fid = sl.frame_get(f, "id") if any(fd["pname"] == "id" for fd in sl.cg.schema()[f["kind"]][2]) else None
                    if fid is not None and n not in ("PING", "PONG"):
                        if (k, fid) not in sent_ids:
                            self.viol.append(("C12", f"frame {n} with id {fid} the client never sent on conn {k}", t))
                        replies[(k, fid)] = replies.get((k, fid), 0) + 1
                        if replies[(k, fid)] > 1:
                            self.viol.append(("C12", f"second frame with id {fid} on conn {k}", t))
                    if n == "IDENTIFY_ACK" and k == k0:
                        for (kind, params, pl) in sent:
                            if kind == "IDENTIFY" and re.fullmatch(rb"[A-Za-z0-9]+", params.get("username", b"")) and len(sent) == 1:
                                # a plain name is taken as it is: the connection IS that user, whatever the acknowledgement
                                # says; the gates below (C04) judge its requests for that identity
                                if fget(f, "nid") != params["username"] + b"@" + domain:
                                    self.viol.append(("C07", f"IDENTIFY username={params['username'].decode()} was acknowledged as {fget(f, 'nid')!r}", t))
                                    self.user[k] = params["username"] + b"@" + domain
                        for (kind, params, pl) in sent:
                            if kind == "IDENTIFY" and "username" in params and b"\\" not in params["username"]:
                                self.spelling[params["username"]] = fget(f, "nid")      # what the server makes of this spelling
                                # (escaped spellings contain blanks, which this tokenizer splits at: not learned, not judged)
                    if n == "ERROR" and fget(f, "reason") == b"USERNAME_IN_USE" and k == k0:
                        for (kind, params, pl) in sent:
                            if kind == "IDENTIFY" and "username" in params:
                                raw = params["username"]
                                if b"\\" in raw:
                                    continue
                                want = self.spelling.get(raw) or (raw + b"@" + domain if raw.isalnum() else None)
                                if want is None:
                                    continue     # a spelling the server has not normalised for us yet (Unicode padding, quoting)
                                holders = [k2 for k2 in live_before if k2 != k and users_before.get(k2) == want]
                                if not holders:
                                    self.viol.append(("C07", f"IDENTIFY {want!r} refused with USERNAME_IN_USE although no live connection holds that name", t))
                    if n == "ERROR" and fid is None and not v["closed"] and fget(f, "reason") not in (b"USERNAME_IN_USE",):
                        self.viol.append(("C12", f"id-less ERROR {fget(f, 'reason')} on a connection that stays open (conn {k})", t))
                if v["closed"]:
                    closed_at[k] = t
            # ---- C12: a pure listing request produces traffic for nobody but its sender, so whatever happens the sender sees
            #      its reply or an ERROR: never a connection that simply ends
            if sent and k0 in users_before and all(kind in ("CHANNELS", "MEMBERS", "GET_CHAN_ACL", "GET_CHAN_CONFIG") and "id" in params
                                                   for (kind, params, pl) in sent) \
                    and len(sent) <= self.case["cfg"]["max_inflight"] and recv.get(k0, {}).get("closed") and not recv[k0]["frames"]:
                self.viol.append(("C12", f"conn {k0} sent {[kind for kind, _, _ in sent]} and was closed without any reply or ERROR frame", t))
            # ---- C17: a client's direct message reaches the modulator with the SENDER's username and the exact payload,
            #      whatever the client wrote into from=
            if any(kind == "MOD_DIRECT" for (kind, params, pl) in sent) and users_before.get(k0) is not None:
                me_name = users_before[k0].split(b"@")[0]
                directs = [(params, pl) for (kind, params, pl) in sent if kind == "MOD_DIRECT"]
                calls = [m for m in o.get("mod", []) if m.get("call") == "spp"]
                for m in calls:
                    if bytes.fromhex(m["from"]) != me_name:
                        self.viol.append(("C17", f"MOD_DIRECT sent on {me_name.decode('latin1')}'s connection reached the modulator as coming from {bytes.fromhex(m['from'])!r}", t))
                    if len(directs) == 1 and directs[0][1] is not None and bytes.fromhex(m["payload"]) != directs[0][1]:
                        self.viol.append(("C17", f"MOD_DIRECT payload reached the modulator altered ({len(bytes.fromhex(m['payload']))} bytes for {len(directs[0][1])})", t))
            # ---- effects acknowledged in this op
            for (kind, params, pl) in sent:
                if "id" not in params:
                    continue
                try:
                    rid = int(params["id"])
                except ValueError:
                    continue
                myf = [f for f in recv.get(k0, {"frames": []})["frames"] if "undecodable" not in f and sl.frame_get(f, "id") == rid]
                names = [fname(f) for f in myf]
                me = users_before.get(k0)
                ch = params.get("channel")
                if kind == "JOIN" and me is not None and ch is not None:
                    # C14: the per-user subscription limit and the channel-count limit, judged against the memberships
                    # the clients were told about (acks, events of disconnects)
                    who_j = params.get("on_behalf", me)
                    cnt = len([c for c, m in members_before.items() if who_j in m])
                    nch = len([c for c, m in members_before.items() if m])
                    lim_s, lim_c = self.case["cfg"]["max_subs"], self.case["cfg"].get("max_channels", 100)
                    errs_j = [fget(f, "reason") for f in myf if fname(f) == "ERROR"]
                    fresh = ch not in members_before or not members_before[ch]
                    if "JOIN_ACK" in names and who_j not in members_before.get(ch, set()):
                        if cnt >= lim_s:
                            self.viol.append(("C14", f"{who_j} admitted to {ch} while already in {cnt} channels (max_channels_per_client {lim_s})", t))
                        if fresh and nch >= lim_c:
                            self.viol.append(("C14", f"channel {ch} created while {nch} channels exist (max_channels {lim_c})", t))
                    if errs_j[:1] == [b"POLICY_VIOLATION"] and cnt < lim_s:
                        self.viol.append(("C14", f"{who_j} refused (subscription limit) although it is in only {cnt} channels (max_channels_per_client {lim_s})", t))
                    if errs_j[:1] == [b"SERVER_OVERLOADED"] and not (fresh and nch >= lim_c):
                        self.viol.append(("C14", f"JOIN of {ch} refused (max channels) although {nch} channels exist (max_channels {lim_c}) or the channel exists", t))
                # C04: administrative requests succeed only for members (the owner is one); observers only for members
                admin_ok = (kind == "SET_CHAN_ACL" and "SET_CHAN_ACL_ACK" in names) or (kind == "GET_CHAN_ACL" and "CHAN_ACL" in names) or \
                    (kind == "SET_CHAN_CONFIG" and "SET_CHAN_CONFIG_ACK" in names) or \
                    (kind in ("JOIN", "LEAVE") and "on_behalf" in params and params["on_behalf"] != me and (kind + "_ACK") in names)
                observe_ok = (kind == "MEMBERS" and "MEMBERS_ACK" in names) or (kind == "GET_CHAN_CONFIG" and "CHAN_CONFIG" in names) or \
                    (kind == "BROADCAST" and "BROADCAST_ACK" in names)
                if (admin_ok or observe_ok) and me is not None and me not in members_before.get(ch, set()):
                    self.viol.append(("C04", f"{kind} on {ch} succeeded for {me}, who is not a member of it", t))
                if admin_ok and self.owner.get(ch) is not None and me != self.owner[ch]:
                    self.viol.append(("C04", f"{kind} on {ch} succeeded for {me} although the owner is {self.owner[ch]}", t))
                if kind == "JOIN" and "JOIN_ACK" in names:
                    who = params.get("on_behalf", me)
                    if not members_before.get(ch):
                        self.owner[ch] = who
                        for ty in (b"join", b"publish", b"read"):      # a fresh channel: every allow-list is empty
                            self.acl[(ch, ty)] = {"last": {}, "domains": set(), "report": []}
                        self.acl_plain[ch] = True
                    self.members.setdefault(ch, set()).add(who)
                    acked_joins.append((ch, who, k0))
                if kind == "LEAVE" and "LEAVE_ACK" in names:
                    who = params.get("on_behalf", me)
                    self.members.get(ch, set()).discard(who)
                    acked_leaves.append((ch, who, k0))
                    if not self.members.get(ch):
                        for ty in (b"join", b"publish", b"read"):      # the emptied channel is gone, its lists with it
                            self.acl.pop((ch, ty), None)
                if kind == "SET_CHAN_ACL" and "SET_CHAN_ACL_ACK" in names and (ch, params.get("type")) in self.acl:
                    # C03, as the property states it: what the acknowledged updates say about each USER nid (the last update
                    # naming it decides: present after add, absent after remove), and which bare domains were ever named (their
                    # presence in the list is not constrained here)
                    ents = [n for n in params.get("nids", b"").split(b" ") if n]
                    if not all(re.fullmatch(rb"[a-z0-9]+@[a-z0-9.]+|[a-z0-9.]+", n) for n in ents):
                        self.acl_plain[ch] = False
                    st = self.acl[(ch, params["type"])]
                    for n in ents:
                        if b"@" in n and params.get("action") in (b"add", b"remove"):
                            st["last"][n] = params["action"]
                        else:
                            st["domains"].add(n)
                    st["report"] = None          # the list was changed: the previous report is history
                if kind == "GET_CHAN_ACL" and "CHAN_ACL" in names and "page" not in params and "page_size" not in params \
                        and (ch, params.get("type")) in self.acl and self.acl_plain.get(ch):
                    rep = fget([f for f in myf if fname(f) == "CHAN_ACL"][0], "nids")
                    st = self.acl[(ch, params["type"])]
                    for n, act in sorted(st["last"].items()):
                        if act == b"add" and n not in rep:
                            self.viol.append(("C03", f"{n.decode()} was added to the {params['type'].decode()} list of {ch.decode()} (acknowledged, never removed since) but the reported list {sorted(rep)} lacks it", t))
                        if act == b"remove" and n in rep:
                            self.viol.append(("C03", f"{n.decode()} was removed from the {params['type'].decode()} list of {ch.decode()} (acknowledged, never added since) but the reported list {sorted(rep)} still has it", t))
                    if st["report"] is not None and sorted(st["report"]) != sorted(rep):
                        self.viol.append(("C03", f"the {params['type'].decode()} list of {ch.decode()} changed from {sorted(st['report'])} to {sorted(rep)} without an acknowledged update of that list in between (the lists are independent; a refused update changes nothing)", t))
                    st["report"] = list(rep)
                if kind == "SET_CHAN_ACL" and "SET_CHAN_ACL_ACK" in names and params.get("type") == b"read":
                    self.read_acl_touched.add(ch)
                if kind == "SET_CHAN_ACL" and "SET_CHAN_ACL_ACK" in names and params.get("type") == b"publish":
                    self.read_acl_touched.add(ch)   # conservative: completeness only checked on ACL-free channels
                if kind == "BROADCAST":
                    same = [1 for (k2, p2, _) in sent if k2 == "BROADCAST" and p2.get("channel") == ch]
                    if len(same) == 1:      # (pipelined bursts of broadcasts to one channel are judged by the C12 / stalled-reader monitors)
                        self.check_broadcast(t, k0, me, ch, pl, names, recv, members_before, op)
                if kind in ("SET_CHAN_ACL", "GET_CHAN_ACL", "SET_CHAN_CONFIG", "MEMBERS", "GET_CHAN_CONFIG") or \
                        (kind in ("JOIN", "LEAVE") and "on_behalf" in params):
                    errs = [fget(f, "reason") for f in myf if fname(f) == "ERROR"]
                    if errs and errs[0] in (b"FORBIDDEN", b"USER_NOT_IN_CHANNEL", b"NOT_ALLOWED", b"CHANNEL_NOT_FOUND"):
                        for k, v in recv.items():
                            if k != k0 and v["frames"]:
                                self.viol.append(("C04", f"refused {kind} ({errs[0].decode()}) still caused traffic to conn {k}", t))
            # ---- connections that ended in this op
            ended = [k for k, v in recv.items() if v["closed"]]
            if op["t"] == "hangup":
                ended.append(k0)
            gone_users = []
            for k in ended:
                self.live.discard(k)
                u = self.user.pop(k, None)
                if u is not None and not self.conns_of(u):
                    gone_users.append(u)
                    for c in self.members.values():
                        c.discard(u)
            self.members = {c: m for c, m in self.members.items() if m}
            self.acl = {key: v for key, v in self.acl.items() if key[0] in self.members}
            # ---- C04: one owner; when the owner leaves (request or last connection gone) a remaining member is
            #      announced as the new owner (MEMBER_JOINED owner=true) to the remaining members
            announced = {}
            for k, v in recv.items():
                for f in v["frames"]:
                    if "undecodable" not in f and fname(f) == "EVENT" and fget(f, "kind") == b"MEMBER_JOINED" and sl.frame_get(f, "owner") is True:
                        announced.setdefault(fget(f, "channel"), set()).add(fget(f, "nid"))
            failing_ev = bool(self.case["cfg"]["mod"] and "fwd-event" in self.case["cfg"]["mod"]["ops"] and "err" in (op.get("script") or []))
            leavers = [(c, w) for (c, w, _) in acked_leaves] + [(c, u) for u in gone_users for c in members_before if u in members_before[c]]
            for (c, w) in leavers:
                if self.owner.get(c) != w:
                    continue
                rest = self.members.get(c, set())
                if not rest:
                    self.owner.pop(c, None)
                    continue
                new = announced.get(c, set())
                if len(new) == 1 and next(iter(new)) in rest:
                    self.owner[c] = next(iter(new))
                else:
                    self.owner[c] = None
                    watchers = [k for k in self.live if self.user.get(k) in rest and not recv.get(k, {}).get("closed")]
                    if watchers and not failing_ev:
                        self.viol.append(("C04", f"owner {w} left {c} with members {sorted(rest)} remaining, but {len(new)} new owners were announced ({sorted(new)})", t))
            for c, new in announced.items():
                if len(new) > 1:
                    self.viol.append(("C04", f"several owners announced for {c} in one step: {sorted(new)}", t))
                elif self.owner.get(c) is None and c in self.members and next(iter(new)) in self.members[c]:
                    self.owner[c] = next(iter(new))
            self.owner = {c: o for c, o in self.owner.items() if c in self.members}
            # ---- C01: every MESSAGE must be justified by membership before/after this op
            for k, v in recv.items():
                for f in v["frames"]:
                    if "undecodable" in f or fname(f) != "MESSAGE":
                        continue
                    ch = fget(f, "channel")
                    u = users_before.get(k) or self.user.get(k)
                    if u is None or (u not in members_before.get(ch, set()) and u not in self.members.get(ch, set())):
                        self.viol.append(("C01", f"MESSAGE for {ch} delivered to conn {k} ({u}) which is not a member", t))
            # ---- C18: events of acknowledged joins / leaves; a refused JOIN/LEAVE announces nothing
            self.check_events(t, recv, acked_joins, acked_leaves, members_before, users_before, live_before)
            for (kind, params, pl) in sent:
                if kind not in ("JOIN", "LEAVE") or "id" not in params or k0 not in users_before:
                    continue
                try:
                    rid = int(params["id"])
                except ValueError:
                    continue
                myf = [f for f in recv.get(k0, {"frames": []})["frames"] if "undecodable" not in f and sl.frame_get(f, "id") == rid]
                mine_all = [f for f in recv.get(k0, {"frames": []})["frames"] if "undecodable" not in f]
                # JOIN: also an id-less closing ERROR (a JOIN whose announcement fails is rolled back before anybody is told);
                # LEAVE: only an ERROR bearing the request's id (a LEAVE whose hand-over announcement fails has been applied
                # and announced already: reply-then-close, see C12_reply_then_close_witness / K18a)
                refused = any(fname(f) == "ERROR" for f in myf) or \
                    (kind == "JOIN" and recv.get(k0, {}).get("closed") and any(fname(f) == "ERROR" and sl.frame_get(f, "id") is None for f in mine_all) and len(sent) == 1)
                if refused and not any(fname(f) in ("JOIN_ACK", "LEAVE_ACK") for f in myf):
                    who = params.get("on_behalf", users_before.get(k0))
                    evk = b"MEMBER_JOINED" if kind == "JOIN" else b"MEMBER_LEFT"
                    for k, v in recv.items():
                        for f in v["frames"]:
                            if "undecodable" not in f and fname(f) == "EVENT" and fget(f, "kind") == evk \
                                    and fget(f, "channel") == params.get("channel") and fget(f, "nid") == who:
                                self.viol.append(("C18", f"refused {kind} of {who} in {params.get('channel')} was still announced to conn {k}", t))
            # ---- C17: a pushed direct payload reaches every connection of each listed user exactly once, nobody else
            if op["t"] == "m2s_direct":
                targets = {bytes.fromhex(x) for x in op["targets"]}
                want_pl = bytes.fromhex(op["payload"])
                for k in live_before:
                    u = users_before.get(k)
                    got = [f for f in recv.get(k, {"frames": []})["frames"] if "undecodable" not in f and fname(f) == "MOD_DIRECT"]
                    uname = u.split(b"@")[0] if u else None
                    want = 1 if (uname is not None and uname in targets) else 0
                    if recv.get(k, {}).get("closed"):
                        continue
                    if len(got) != want:
                        self.viol.append(("C17", f"direct payload for {sorted(targets)}: conn {k} ({u}) received {len(got)} copies, expected {want}", t))
                    for f in got:
                        if bytes.fromhex(f["payload"]) != want_pl or fget(f, "from") != domain:
                            self.viol.append(("C17", f"direct payload delivered to conn {k} differs from what the modulator pushed (or from != server domain)", t))
        # ---- C12: every pending request answered or its connection closed
        for (k, rid), t in pending.items():
            if replies.get((k, rid), 0) == 0 and k not in closed_at and not any(
                    op["t"] == "hangup" and op["k"] == k for op in case["ops"]):
                self.viol.append(("C12", f"request id {rid} on conn {k} never answered and the connection stayed open", t))
        return self.viol

    def check_identity(self, k, nid, domain, t, exclusive):
        try:
            s = nid.decode("utf-8")
        except UnicodeDecodeError:
            self.viol.append(("C07", f"assigned NID is not UTF-8: {nid!r}", t))
            return
        if "@" not in s:
            self.viol.append(("C07", f"assigned NID {s!r} is a bare domain (the server's identity)", t))
            return
        u, d = s.split("@", 1)
        if not u or d.encode() != domain or "@" in d or any(c.isspace() or unicodedata.category(c) in ("Zs", "Zl", "Zp") for c in u):
            self.viol.append(("C07", f"assigned NID {s!r} is not username@{domain.decode()} with a clean username", t))
        if exclusive:
            others = [k2 for k2 in self.live if k2 != k and self.user.get(k2) == nid]
            if others:
                self.viol.append(("C07", f"username {s!r} held by two live connections ({k}, {others})", t))

    def check_broadcast(self, t, k0, me, ch, pl, names, recv, members_before, op):
        mod = self.case["cfg"]["mod"]
        expect = pl
        script = op.get("script") or []
        if mod and script:
            o = script[0]
            if isinstance(o, dict) and "altered" in o:
                expect = bytes.fromhex(o["altered"])
            if o in ("invalid", "err"):
                expect = None
        msgs = []
        for k, v in recv.items():
            for f in v["frames"]:
                if "undecodable" not in f and fname(f) == "MESSAGE" and fget(f, "channel") == ch:
                    msgs.append((k, f))
        if expect is None and "BROADCAST_ACK" in names:
            self.viol.append(("C08", "broadcast acknowledged although the modulator did not validate its payload", t))
        for k, f in msgs:
            if expect is None:
                self.viol.append(("C08", f"payload delivered although the modulator did not validate it (conn {k})", t))
                continue
            got = bytes.fromhex(f["payload"])
            if k == k0:
                self.viol.append(("C02", "MESSAGE echoed to the sending connection", t))
            if got != expect or sl.frame_get(f, "length") != len(expect):
                self.viol.append(("C02" if not mod else "C08", f"payload delivered to conn {k} differs from the accepted payload", t))
            if fget(f, "from") != me:
                self.viol.append(("C07", f"MESSAGE from={fget(f, 'from')} but the sender is {me}", t))
        rd = self.acl.get((ch, b"read")) if self.acl_plain.get(ch) else None
        def surely_listed(u):
            return rd is not None and rd["last"].get(u) == b"add"
        def surely_excluded(u):
            # the list is surely not empty (somebody's last update is an add), u itself is not in it, and u's domain was
            # never named as a bare domain
            return rd is not None and any(a == b"add" for a in rd["last"].values()) and rd["last"].get(u) != b"add" \
                and u.split(b"@", 1)[-1] not in rd["domains"]
        if rd is not None:
            # C01: nobody the acknowledged read list surely excludes receives the payload
            for k, f in msgs:
                u = self.user.get(k)
                if u is not None and surely_excluded(u):
                    self.viol.append(("C01", f"MESSAGE of {ch} delivered to conn {k} ({u}), whom the read list built by the acknowledged updates ({sorted(n for n, a in rd['last'].items() if a == b'add')}) does not permit", t))
        if "BROADCAST_ACK" in names and expect is not None and (ch not in self.read_acl_touched or rd is not None):
            for u in members_before.get(ch, set()):
                if ch in self.read_acl_touched and not surely_listed(u):
                    continue        # judged only for members the acknowledged updates surely list
                for k in self.conns_of(u):
                    if k == k0 or k == self.case.get("stalled_resume"):
                        continue      # (a deliberately stalled reader is judged by stalled_resume_check once it reads on)
                    n = len([1 for kk, _ in msgs if kk == k])
                    closed = recv.get(k, {}).get("closed", False)
                    if n != 1 and not closed:
                        self.viol.append(("C02", f"acknowledged broadcast: member connection {k} ({u}) received {n} copies", t))

    def check_events(self, t, recv, joins, leaves, members_before, users_before, live_before):
        def events(k, kind, ch, nid):
            return [f for f in recv.get(k, {"frames": []})["frames"] if "undecodable" not in f and fname(f) == "EVENT"
                    and fget(f, "kind") == kind and fget(f, "channel") == ch and fget(f, "nid") == nid]
        mod = self.case["cfg"]["mod"]
        op = self.case["ops"][t]
        failing = bool(mod and "fwd-event" in mod["ops"] and "err" in (op.get("script") or []))
        tagp = "K18a " if failing else ""
        for (ch, who, k0) in joins:
            audience = members_before.get(ch, set()) | {who}
            for k in live_before:
                u = users_before.get(k)
                n = len(events(k, b"MEMBER_JOINED", ch, who))
                want = 1 if (u in audience and k != k0) else 0
                if k in recv and recv[k].get("closed"):
                    continue
                if n != want:
                    self.viol.append(("C18", tagp + f"join of {who} in {ch}: conn {k} ({u}) saw {n} MEMBER_JOINED events, expected {want}", t))
        for (ch, who, k0) in leaves:
            audience = members_before.get(ch, set())
            # the owner flag of the departure: true exactly when the leaver was the channel's owner (as announced so far)
            known_owner = getattr(self, "owner_before", {}).get(ch)
            if known_owner is not None:
                for k in live_before:
                    for f in events(k, b"MEMBER_LEFT", ch, who):
                        if sl.frame_get(f, "owner") is not (known_owner == who):
                            self.viol.append(("C18", tagp + f"MEMBER_LEFT of {who} from {ch} carries owner={sl.frame_get(f, 'owner')} although the owner is {known_owner}", t))
                            break
            for k in live_before:
                u = users_before.get(k)
                n = len(events(k, b"MEMBER_LEFT", ch, who))
                want = 1 if (u in audience and k != k0) else 0
                if k in recv and recv[k].get("closed"):
                    continue
                if n != want:
                    self.viol.append(("C18", tagp + f"leave of {who} from {ch}: conn {k} ({u}) saw {n} MEMBER_LEFT events, expected {want}", t))


def audit_ops(gen):
    """quiescence audit appended to a history: every live identified connection lists its channels and
    asks MEMBERS of every known channel; cross-checked by audit_check (C05)"""
    ops = []
    for k, c in list(gen.conns.items()):
        if c["phase"] != 2:
            continue
        i = gen.rid()
        ops.append({"t": "send", "k": k, "bytes": sl.frame("CHANNELS", [("id", i), ("page_size", 50)]).hex(), "script": [], "audit": "channels"})
        for ch in sl.CHANNELS:
            i = gen.rid()
            ops.append({"t": "send", "k": k, "bytes": sl.frame("MEMBERS", [("id", i), ("channel", ch), ("page_size", 100)]).hex(),
                        "script": [], "audit": "members", "channel": ch})
    return ops


def audit_check(case, obs):
    viol = []
    listed = {}     # conn -> set of channels
    user = {}
    gone = set()    # connections that ended (closed by the server or hung up)
    for t, (op, o) in enumerate(zip(case["ops"], obs["ops"])):
        for k, v in o["conns"].items():
            for f in v["frames"]:
                if "undecodable" in f:
                    continue
                if fname(f) == "IDENTIFY_ACK":
                    user[int(k)] = fget(f, "nid")
                if fname(f) == "AUTH_ACK" and sl.frame_get(f, "succeeded") is True:
                    user[int(k)] = fget(f, "nid")
            if v["closed"]:
                gone.add(int(k))
        if op["t"] == "hangup":
            gone.add(op["k"])
        if "expect_created" in op:
            frx = [f for f in o["conns"].get(str(op["k"]), {"frames": []})["frames"] if "undecodable" not in f]
            errs = [fget(f, "reason") for f in frx if fname(f) == "ERROR"]
            if errs and not any(fname(f) == "JOIN_ACK" for f in frx):
                viol.append(("C05", f"JOIN of {op['expect_created']}, which has no member left, is answered {errs}: the emptied channel still exists with its old ACL/configuration", t))
        if "audit" not in op:
            continue
        k = op["k"]
        fr = [f for f in o["conns"].get(str(k), {"frames": []})["frames"] if "undecodable" not in f]
        if op["audit"] == "channels":
            acks = [f for f in fr if fname(f) == "CHANNELS_ACK"]
            if acks:
                listed[k] = set(fget(acks[0], "channels"))
        else:
            ch = op["channel"].encode()
            if k not in listed or k not in user:
                continue
            acks = [f for f in fr if fname(f) == "MEMBERS_ACK"]
            errs = [fget(f, "reason") for f in fr if fname(f) == "ERROR"]
            if acks:
                online = {u for kk, u in user.items() if kk not in gone}
                for mnid in fget(acks[0], "members"):
                    if mnid not in online:
                        viol.append(("C05", f"{mnid} is listed in MEMBERS of {ch} although none of its connections is alive", t))
            if errs[:1] == [b"RESPONSE_TOO_LARGE"]:
                continue      # the listing did not fit the message buffer: no information
            if ch in listed[k]:
                if not acks or user[k] not in fget(acks[0], "members"):
                    viol.append(("C05", f"{user[k]} lists {ch} in CHANNELS but is not in its MEMBERS ({errs})", t))
            else:
                if acks and user[k] in fget(acks[0], "members"):
                    viol.append(("C05", f"{user[k]} is in MEMBERS of {ch} but CHANNELS does not list it", t))
                if not acks and errs and errs[0] not in (b"USER_NOT_IN_CHANNEL", b"CHANNEL_NOT_FOUND"):
                    viol.append(("C05", f"unexpected answer {errs} to the membership probe of {ch}", t))
    return viol


def acl_check(case, obs):
    """C03 on the implementation: decisions must agree with the most recently REPORTED allow-list
    (GET_CHAN_ACL without pagination), for join (JOIN / on-behalf JOIN) and publish (BROADCAST)."""
    viol = []
    reported = {}    # (channel, type) -> list of nid bytes
    user = {}
    def allowed(lst, nid):
        if not lst:
            return True
        dom = nid.split(b"@", 1)[1] if b"@" in nid else nid
        return nid in lst or dom in lst
    for t, (op, o) in enumerate(zip(case["ops"], obs["ops"])):
        recv = {int(k): v for k, v in o["conns"].items()}
        for k, v in recv.items():
            for f in v["frames"]:
                if "undecodable" in f:
                    continue
                if fname(f) == "IDENTIFY_ACK" or (fname(f) == "AUTH_ACK" and sl.frame_get(f, "succeeded") is True):
                    user[k] = fget(f, "nid")
        if op["t"] == "hangup" or any(v.get("closed") for v in recv.values()):
            # a connection ended: channels it was the last member of are gone, and a channel of the same name created later
            # starts with empty lists — what was reported before says nothing about it.  (The tracker, which follows
            # memberships, keeps judging: Tracker.acl.)
            pending_clear = True
        else:
            pending_clear = False
        if op["t"] != "send":
            if pending_clear:
                reported.clear()
            continue
        k0 = op["k"]
        me = user.get(k0)
        for (kind, params, pl) in parse_sent(sl.op_bytes(op)):
            ch = params.get("channel")
            try:
                rid = int(params.get("id", b"0"))
            except ValueError:
                continue
            myf = [f for f in recv.get(k0, {"frames": []})["frames"] if "undecodable" not in f and sl.frame_get(f, "id") == rid]
            names = [fname(f) for f in myf]
            errs = [fget(f, "reason") for f in myf if fname(f) == "ERROR"]
            if kind == "SET_CHAN_ACL":
                ty = params.get("type")
                if "SET_CHAN_ACL_ACK" not in names and (ch, ty) in reported:
                    # refused (or the connection was closed): the list must still be what was last reported
                    reported[("frozen", ch, ty)] = list(reported[(ch, ty)])
                if "SET_CHAN_ACL_ACK" in names:
                    reported.pop(("frozen", ch, ty), None)
                    reported.pop((ch, ty), None)
                    # the named user NIDs must be present / absent in the next report: remembered as expectation
                    reported[("expect", ch, ty)] = (params.get("action"), [n for n in params.get("nids", b"").split(b" ") if b"@" in n])
            if kind == "GET_CHAN_ACL" and "CHAN_ACL" in names and "page" not in params:
                ty = params.get("type")
                lst = fget([f for f in myf if fname(f) == "CHAN_ACL"][0], "nids")
                frozen = reported.pop(("frozen", ch, ty), None)
                if frozen is not None and sorted(frozen) != sorted(lst):
                    viol.append(("C03", f"a refused SET_CHAN_ACL changed the {ty} list of {ch}: it was {frozen}, now {lst}", t))
                reported[(ch, ty)] = lst
                exp = reported.pop(("expect", ch, ty), None)
                if exp:
                    action, nids = exp
                    for n in nids:
                        if action == b"add" and n not in lst:
                            viol.append(("C03", f"acknowledged add of {n} to {ch}/{ty} but the reported list lacks it", t))
                        if action == b"remove" and n in lst:
                            viol.append(("C03", f"acknowledged remove of {n} from {ch}/{ty} but the reported list still has it", t))
            if kind == "JOIN" and (ch, b"join") in reported and me:
                who = params.get("on_behalf", me)
                if "JOIN_ACK" in names and not allowed(reported[(ch, b"join")], who):
                    viol.append(("C03", f"{who} joined {ch} although the reported join list {reported[(ch, b'join')]} does not permit it", t))
                if errs[:1] == [b"NOT_ALLOWED"] and allowed(reported[(ch, b"join")], who):
                    viol.append(("C03", f"{who} refused (NOT_ALLOWED) although the reported join list {reported[(ch, b'join')]} permits it", t))
            if kind == "BROADCAST" and (ch, b"publish") in reported and me:
                if "BROADCAST_ACK" in names and not allowed(reported[(ch, b"publish")], me):
                    viol.append(("C03", f"{me} published to {ch} although the reported publish list does not permit it", t))
                if errs[:1] == [b"NOT_ALLOWED"] and allowed(reported[(ch, b"publish")], me):
                    viol.append(("C03", f"{me} refused (NOT_ALLOWED) although the reported publish list permits it", t))
            if kind == "BROADCAST" and (ch, b"read") in reported and "BROADCAST_ACK" in names and op.get("members_live"):
                # the converse, for histories that state who the live members are: whoever the reported read list permits
                # receives the acknowledged broadcast
                for k in op["members_live"]:
                    if k != k0 and k in user and allowed(reported[(ch, b"read")], user[k]):
                        got = [f for f in recv.get(k, {"frames": []})["frames"] if "undecodable" not in f and fname(f) == "MESSAGE" and fget(f, "channel") == ch]
                        if not got:
                            viol.append(("C03", f"{user[k]} is a member of {ch} and the reported read list {reported[(ch, b'read')]} permits it, but the acknowledged broadcast did not reach it", t))
            if kind == "BROADCAST" and (ch, b"read") in reported and "BROADCAST_ACK" in names:
                for k, v in recv.items():
                    for f in v["frames"]:
                        if "undecodable" not in f and fname(f) == "MESSAGE" and fget(f, "channel") == ch and k in user:
                            if not allowed(reported[(ch, b"read")], user[k]):
                                viol.append(("C03", f"{user[k]} received a MESSAGE of {ch} although the reported read list does not permit it", t))
        if pending_clear:
            reported.clear()
    return viol


def stalled_resume_check(case, obs):
    """C02 for a reader that stalled and then read on: what it finally received must be exactly the acknowledged
    broadcasts of its channel, in order, each with an intact header (from / channel / length) and identical bytes."""
    k = case.get("stalled_resume")
    if k is None or "ops" not in obs:
        return []
    viol = []
    user = {}
    expected = []      # (from nid, channel, payload) of acknowledged broadcasts while k was a member
    got = []
    for t, (op, o) in enumerate(zip(case["ops"], obs["ops"])):
        for kk, v in o["conns"].items():
            for f in v["frames"]:
                if "undecodable" in f:
                    if int(kk) == k:
                        viol.append(("C02", f"the resumed reader received an undecodable line: {bytes.fromhex(f['undecodable'])[:60]!r}", t))
                    continue
                if fname(f) == "IDENTIFY_ACK":
                    user[int(kk)] = fget(f, "nid")
                if int(kk) == k and fname(f) == "MESSAGE":
                    got.append((fget(f, "from"), fget(f, "channel"), bytes.fromhex(f["payload"]), sl.frame_get(f, "length"), t))
        if op["t"] == "send":
            for (kind, params, pl) in parse_sent(sl.op_bytes(op)):
                if kind == "BROADCAST" and params.get("channel") == b"!c1@localhost" and op["k"] != k:
                    acks = [f for f in o["conns"].get(str(op["k"]), {"frames": []})["frames"] if "undecodable" not in f
                            and fname(f) == "BROADCAST_ACK" and sl.frame_get(f, "id") == int(params["id"])]
                    if acks:
                        expected.append((user.get(op["k"]), b"!c1@localhost", pl))
    closed = any(o["conns"].get(str(k), {}).get("closed") for o in obs["ops"])
    if closed:
        return viol      # disconnected with an outbound-queue error: the property's other alternative
    if len(got) != len(expected):
        viol.append(("C02", f"the resumed reader received {len(got)} MESSAGE frames for {len(expected)} acknowledged broadcasts", len(case["ops"]) - 1))
    for (gf, gc, gp, gl, t), (ef, ec, ep) in zip(got, expected):
        if gf != ef or gc != ec or gp != ep or gl != len(ep):
            viol.append(("C02", f"the resumed reader received a MESSAGE from={gf} channel={gc} length={gl} that is not the acknowledged broadcast (from={ef}, {len(ep)} bytes)", t))
            break
    return viol
