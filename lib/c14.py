"""C14 — decided on the server model; see lib/srvprops.py and coq/Props/C14.v"""
import srvprops

PROP = "C14"
THEOREMS = ["C14_model_smoke"]


def run(tier, replay=None):
    return srvprops.run(PROP, THEOREMS, tier, replay)
