"""C14 — decided on the server model; see lib/srvprops.py and coq/Props/C14.v"""
import srvprops

PROP = "C14"
THEOREMS = ["C14_limits_every_reachable_state", "C14_connection_limit", "C14_open_beyond_limit_refused", "C14_closed_connection_slot_released", "C14_hangup_slot_released", "C14_subscription_limit", "C14_subscription_zero_example", "C14_channel_capacity_at_admission", "C14_payload_limit", "C14_payload_limit_server_cap", "C14_acl_entry_limit", "C14_inflight_zero", "C14_capacity_not_invariant_after_config_change"]


def run(tier, replay=None):
    return srvprops.run(PROP, THEOREMS, tier, replay)
