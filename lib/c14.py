"""C14 — decided on the server model; see lib/srvprops.py and coq/Props/C14.v"""
import serverlib as sl
import srvprops

PROP = "C14"
THEOREMS = ["C14_limits_every_reachable_state", "C14_connection_limit", "C14_open_beyond_limit_refused", "C14_closed_connection_slot_released", "C14_hangup_slot_released", "C14_subscription_limit", "C14_subscription_zero_example", "C14_channel_capacity_at_admission", "C14_payload_limit", "C14_payload_limit_server_cap", "C14_acl_entry_limit", "C14_inflight_zero", "C14_capacity_not_invariant_after_config_change", "C14_channel_limit", "C14_channel_created_only_with_room", "C14_channel_slot_released", "C14_channel_limit_example", "C14_source_limits_wiring", "C14_adjusted_limit_never_exceeds_configuration", "C14_adjusted_limit_cases", "C14_inflight_counter_is_the_number_in_flight", "C14_inflight_refusal_means_full_window", "C14_inflight_snapshot_drifts_refuted", "C14_source_inflight_decrements_live_counter", "C14_conc_subscription_limit", "C14_conc_subscription_limit_late_index_refuted", "C14_conc_member_limit", "C14_source_subscription_limit", "C14_source_segment_layout"]


def boot_stage(thorough, violations, stats):
    """the configured limits are the enforced ones when the server is started through its real entry point"""
    import bootlib
    from common import Rng, seed
    rr = Rng(seed() + 31)
    for _ in range(4 if thorough else 1):
        v, st = bootlib.probe(rr)
        for k, x in st.items():
            stats[k] = stats.get(k, 0) + x
        for what, lim in v:
            if "SIGTERM" in what or "did not stop" in what or "no longer serves new connections" in what:
                continue      # shutdown behaviour is C20's business
            violations.append((PROP, "server started through narwhal_server::run: " + what, {"boot_limits": lim}, 0))


def init_stage(thorough, violations, stats):
    """start-up negotiation with the modulator (narwhal_modulator::init_modulator against a scripted S2M peer): the limits
    the server goes on to run with never exceed its own configuration (Model/Link.adjust_limit)"""
    import linklib as ll
    from common import Rng, seed, coq_eval
    rr = Rng(seed() + 47)
    cases = ll.init_cases(rr, 60 if thorough else 16)
    obs, out = ll.run_client(cases, tag="c14init")
    if obs is None:
        violations.append((PROP, "s2mclient harness crashed or hung in the start-up negotiation: " + out[-300:], cases[0], 0))
        return
    stats["startup_negotiations"] = len(cases)
    for c, ob in zip(cases, obs):
        for what in ll.init_monitor(c, ob):
            violations.append((PROP, what, c, 0))
    bad, cout = coq_eval(ll.PRELUDE, ll.init_conf_terms(cases, obs), kind="bool", tag="c14initc")
    if bad is None:
        violations.append((PROP, "start-up negotiation correspondence could not be evaluated: " + cout[-300:], cases[0], 0))
    else:
        for i in bad:
            if not ll.init_monitor(cases[i], obs[i]):
                violations.append((PROP, "start-up negotiation differs from Model/Link.adjust_limit: " + str(obs[i])[:200], cases[i], 0))


def inflight_stage(thorough, violations, stats):
    """the per-connection in-flight counter does not drift: requests suspended together in the modulator and answered in
    arrival order / in reverse order, then a full window of requests that are all in flight at once must be admitted"""
    import c13
    progs = [(("JOIN_new", "JOIN_new"), "park2_inorder"), (("BROADCAST", "BROADCAST"), "park2_inorder"), (("JOIN_new", "BROADCAST"), "park2_reverse"),
             (("LEAVE_member", "JOIN_behalf"), "park2_inorder")]
    cases = [c13.build_case(p, pat) for p, pat in progs]
    stats["inflight_window_programs"] = len(cases)
    for (idx, rc, ob), case in zip(map(c13.run_program, list(enumerate(cases))), cases):
        for what in c13.analyse(case, rc, ob, {}, {}):
            if "in flight" in what or "in-flight" in what or "window" in what:
                violations.append((PROP, what, case, 0))


def both_stages(thorough, violations, stats):
    boot_stage(thorough, violations, stats)
    init_stage(thorough, violations, stats)
    inflight_stage(thorough, violations, stats)


def run(tier, replay=None):
    return srvprops.run(PROP, THEOREMS, tier, replay, extra_stage=both_stages, extra_gen=lambda r, th: sl.kick_histories(r, th) + sl.slot_histories(r, th) + sl.inflight_histories(r, th), rule_note=' plus connections ending through the write-error path max_connections times followed by new connections, and requests timing out in a silent modulator max_inflight_requests times followed by a full pipelined window;' + ' plus directed removal histories: an owner removes a member with LEAVE on_behalf, then drops / fills its own limit / the removed member re-joins up to its limit / a namesake reconnects and probes ownership; ends with the CHANNELS-vs-MEMBERS audit (members must be alive)')
