"""C14 — decided on the server model; see lib/srvprops.py and coq/Props/C14.v"""
import serverlib as sl
import srvprops

PROP = "C14"
THEOREMS = ["C14_limits_every_reachable_state", "C14_connection_limit", "C14_open_beyond_limit_refused", "C14_closed_connection_slot_released", "C14_hangup_slot_released", "C14_subscription_limit", "C14_subscription_zero_example", "C14_channel_capacity_at_admission", "C14_payload_limit", "C14_payload_limit_server_cap", "C14_acl_entry_limit", "C14_inflight_zero", "C14_capacity_not_invariant_after_config_change", "C14_channel_limit", "C14_channel_created_only_with_room", "C14_channel_slot_released", "C14_channel_limit_example", "C14_source_limits_wiring"]


def boot_stage(thorough, violations, stats):
    """the configured limits are the enforced ones when the server is started through its real entry point"""
    import bootlib
    from common import Rng, seed
    rr = Rng(seed() + 31)
    for _ in range(4 if thorough else 1):
        v, st = bootlib.probe(rr)
        for k, x in st.items():
            stats[k] = stats.get(k, 0) + x
        for what, lim in v:
            if "SIGTERM" in what or "did not stop" in what:
                continue      # shutdown behaviour is C20's business
            violations.append((PROP, "server started through narwhal_server::run: " + what, {"boot_limits": lim}, 0))


def run(tier, replay=None):
    return srvprops.run(PROP, THEOREMS, tier, replay, extra_stage=boot_stage, extra_gen=lambda r, th: sl.kick_histories(r, th) + sl.slot_histories(r, th) + sl.inflight_histories(r, th), rule_note=' plus connections ending through the write-error path max_connections times followed by new connections, and requests timing out in a silent modulator max_inflight_requests times followed by a full pipelined window;' + ' plus directed removal histories: an owner removes a member with LEAVE on_behalf, then drops / fills its own limit / the removed member re-joins up to its limit / a namesake reconnects and probes ownership; ends with the CHANNELS-vs-MEMBERS audit (members must be alive)')
