"""C01 — decided on the server model; see lib/srvprops.py and coq/Props/C01.v"""
import srvprops

PROP = "C01"
THEOREMS = ["C01_confinement_every_op", "C01_confinement_frame", "C01_only_messages_and_directs_carry_payloads", "C01_no_cross_channel_leak", "C01_targets_cache_is_filtered_members", "C01_disconnected_user_is_no_member", "C01_oversize_settling_invents_no_frame", "C01_oversize_settling_invents_no_payload", "C01_conc_message_confinement", "C01_source_segment_layout", "C01_conc_namesake_inherits_during_cleanup_refuted", "C01_conc_targets_cache", "C01_conc_no_cross_channel_leak"]


import serverlib as sl


def acl_gen(r, thorough):
    return sl.acl_histories(r, thorough, types=("read", "publish")) + sl.kick_histories(r, thorough) + sl.failed_event_histories(r, thorough) + sl.two_list_histories(r, thorough) + __import__('c05').parked_join_histories(r, thorough)


def run(tier, replay=None):
    return srvprops.run(PROP, THEOREMS, tier, replay, extra_gen=acl_gen,
                        rule_note="plus directed ACL histories (multi-domain allow-lists edited by add/remove batches, then probed by broadcasts) and directed removal histories (owner removes a member, drops, a namesake reconnects without joining, a member publishes) and failed-notification histories (a JOIN whose announcement fails is refused; the user comes back under the same name and must receive nothing of what the members publish)")
