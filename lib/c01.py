"""C01 — decided on the server model; see lib/srvprops.py and coq/Props/C01.v"""
import srvprops

PROP = "C01"
THEOREMS = ["C01_model_smoke"]


def run(tier, replay=None):
    return srvprops.run(PROP, THEOREMS, tier, replay)
