"""C16 — delegated requests complete by their own reply; failures cost no capacity."""
import json

from common import (coqchk, Rng, assumptions, coq_eval, coq_make, harness_build, hygiene, load_known, log, regen,
                    run_harness, seed, write_evidence, write_replay, TRUSTED_BASE)

PROP = "C16"
THEOREMS = ["C16_model_smoke", "C16_invariant_all_histories", "C16_own_reply", "C16_no_cross", "C16_duplicates_ignored", "C16_late_ignored",
            "C16_resolved_final", "C16_window_bound", "C16_written_means_registered", "C16_no_hang", "C16_capacity", "C16_leak_refuted",
            "C16_ids_distinct", "C16_ids_nonzero", "C16_ping",
            "C16_reconnect_wait_bounded", "C16_reconnect_wait_bounded_from_any_delay", "C16_uncapped_jitter_unbounded_refuted"]
PRELUDE = "From NW Require Import Base.Bytes Model.ClientEngine Conf.CodecConf Conf.ClientConf.\n"
RELEASES = "true"     # does the implementation release the table entry/permit on timeout? (model parameter, see Props/C16.v)


def gen_case(r, nops, leak_probe=False):
    k = r.choice([1, 2, 3, 5])
    ops = []
    nid = 0
    issued = []
    if leak_probe:
        # k timeouts, then a full window of healthy requests
        for _ in range(k):
            nid += 1
            ops.append({"t": "issue", "id": nid})
        ops.append({"t": "advance", "ms": 6000})
        first = nid + 1
        for _ in range(k):
            nid += 1
            ops.append({"t": "issue", "id": nid})
        for i in range(first, nid + 1):
            ops.append({"t": "reply", "id": i})
        ops.append({"t": "advance", "ms": 6000})
        return {"max_inflight": k, "timeout_ms": 5000, "ops": ops}
    # phases: traffic, then everything resolves (advance past the timeout); the link may break
    # mid-phase (then only time passes until the phase ends) or between phases (quiescent)
    while len(ops) < nops:
        phase_len = r.randint(3, 14)
        mid_break = r.random() < 0.2
        for step in range(phase_len):
            x = r.random()
            if x < 0.42 or not issued:
                nid += 1
                ops.append({"t": "issue", "id": nid})
                issued.append(nid)
            elif x < 0.74:
                kk = r.random()
                if kk < 0.7:
                    i = r.choice(issued[-6:])
                elif kk < 0.85:
                    i = r.choice(issued)          # duplicates / late replies
                else:
                    i = r.choice([nid + 50, 999999])   # unsolicited
                if r.random() < 0.3 and issued:
                    ops.append({"t": "reply_payload", "id": i, "inner_id": r.choice(issued[-4:])})
                else:
                    ops.append({"t": "reply", "id": i})
            elif x < 0.82:
                ops.append({"t": "ping", "id": r.randint(1, 4294967295)})
            elif x < 0.87:
                ops.append({"t": "push"})
            else:
                ops.append({"t": "advance", "ms": r.choice([100, 100, 6000])})
        if mid_break:
            if r.random() < 0.4 and issued:
                # the peer answers with a frame the reader cannot accept (payload longer than the session allows) and
                # keeps the link open: for the engine that is the end of this link, like any other read error
                ops.append({"t": "reply_oversize", "id": r.choice(issued[-3:]), "len": r.choice([1025, 5000, 4294967295])})
            else:
                ops.append({"t": "break"})
        ops.append({"t": "advance", "ms": 6000})
        if not mid_break and r.random() < 0.3:
            ops.append({"t": "break"})
    return {"max_inflight": k, "timeout_ms": 5000, "ops": ops}


def stalled_writer_case(r):
    """directed, monitors only: the peer stays connected but stops reading; requests time out round after round until the
    outbound queue (4096 slots) is full and further requests time out while waiting for room in it; then the peer reads
    on and answers: a full window of new requests must complete (failed requests cost no capacity)."""
    k = r.choice([50, 100])
    ops = [{"t": "issue", "id": 1}, {"t": "reply", "id": 1}, {"t": "peer_stall", "on": True}]
    nid = 2
    rounds = 4300 // k + 3
    for _ in range(rounds):
        ops.append({"t": "issue_many", "from": nid, "count": k})
        nid += k
        ops.append({"t": "advance", "ms": 400})
    ops.append({"t": "peer_stall", "on": False})
    ops.append({"t": "advance", "ms": 400})
    ops.append({"t": "issue_many", "from": nid, "count": k, "expect_all": True})
    ops.append({"t": "reply_many", "from": nid, "count": k})
    ops.append({"t": "advance", "ms": 400})
    return {"max_inflight": k, "timeout_ms": 300, "duplex": 256, "ops": ops, "nomodel": True, "final_window": [nid, k]}


def final_window_monitor(case, ob):
    if not case.get("final_window"):
        return []
    frm, k = case["final_window"]
    done = {}
    for o in ob["ops"]:
        for ids, res in o["done"].items():
            done[int(ids)] = res
    ok = [i for i in range(frm, frm + k) if "reply_id" in done.get(i, {}) and done[i]["reply_id"] == i]
    if len(ok) != k:
        bad = [i for i in range(frm, frm + k) if i not in ok][:5]
        return [(f"after the peer recovered only {len(ok)} of a window of {k} requests were completed by their own replies (e.g. {bad}: {[done.get(i) for i in bad][:2]}): requests that failed while the writer was blocked still hold capacity", len(case["ops"]) - 1)]
    return []


def to_terms(case, ob):
    """events per op (timeouts derived from the implementation's own completions) + observation terms"""
    outstanding = []     # (id, issue_time)
    now = 0
    evs_all, obs_all = [], []
    mon = []
    replies_seen = {}
    epoch = 0            # bumps whenever the current link ends (break, or a frame the reader must refuse)
    written_at = {}      # id -> epoch in which the peer received the request
    for t, (op, o) in enumerate(zip(case["ops"], ob["ops"])):
        evs = []
        expect_done = None
        if op["t"] in ("reply", "reply_payload") and written_at.get(op["id"]) == epoch and replies_seen.get(op["id"], 0) == 0 \
                and any(a == op["id"] and now + 11 - b < case["timeout_ms"] for (a, b) in outstanding):
            expect_done = op["id"]
        if op["t"] == "issue":
            evs.append("Issue %d" % op["id"])
            outstanding.append((op["id"], now))
        elif op["t"] in ("reply", "reply_payload"):
            evs.append("PeerReply %d" % op["id"])
            replies_seen[op["id"]] = replies_seen.get(op["id"], 0) + 1
        elif op["t"] == "ping":
            evs.append("PeerPing %d" % op["id"])
        elif op["t"] == "push":
            evs.append("PeerPush")
        elif op["t"] in ("break", "reply_oversize"):
            evs.append("LinkBreak")
        elif op["t"] == "advance":
            now += op["ms"]
        now += 11
        for (i, t0) in list(outstanding):
            if now - t0 >= case["timeout_ms"]:
                evs.append("Timeout %d" % i)
        if op["t"] in ("break", "reply_oversize"):
            epoch += 1
        written = [f["id"] for f in o["peer_frames"] if f.get("name") == "S2M_AUTH"]
        for w in written:
            written_at[w] = epoch
        pongs = [f["id"] for f in o["peer_frames"] if f.get("name") == "PONG"]
        completed, timedout = [], []
        for ids, res in o["done"].items():
            i = int(ids)
            outstanding = [(a, b) for (a, b) in outstanding if a != i]
            if "reply_id" in res:
                completed.append(i)
                if res["reply_id"] != i:
                    mon.append((f"request {i} was completed by the reply carrying id {res['reply_id']}", t))
                if replies_seen.get(i, 0) == 0:
                    mon.append((f"request {i} completed although the peer never sent a frame with its id", t))
            elif "timed out" in res.get("error", "") or "failed to send message" in res.get("error", ""):
                timedout.append(i)      # failed without a reply (timeout, or the replaced link's writer is gone)
            else:
                mon.append((f"request {i} ended with {res}", t))
        if expect_done is not None and expect_done not in completed:
            mon.append((f"request {expect_done} was written to the live link and the peer answered with its id in time, yet it was not completed by that reply", t))
        evs_all.append("[" + ";".join(evs) + "]")
        obs_all.append("cob [%s] [%s] [%s] [%s]" % (";".join(map(str, written)), ";".join(map(str, pongs)),
                                                   ";".join(map(str, completed)), ";".join(map(str, timedout))))
    if outstanding:
        mon.append((f"requests {[a for a, _ in outstanding]} neither completed nor timed out (hang)", len(case["ops"]) - 1))
    return evs_all, obs_all, mon


def window_monitor(case, ob):
    """at most max_inflight written-but-unanswered requests at any time; capacity comes back after timeouts"""
    out = []
    unanswered = set()
    for t, (op, o) in enumerate(zip(case["ops"], ob["ops"])):
        if op["t"] in ("break", "reply_oversize"):
            unanswered.clear()
        for f in o["peer_frames"]:
            if f.get("name") == "S2M_AUTH":
                unanswered.add(f["id"])
        for ids, res in o["done"].items():
            unanswered.discard(int(ids))
        if len(unanswered) > case["max_inflight"]:
            out.append((f"{len(unanswered)} requests outstanding at once, negotiated limit {case['max_inflight']}", t))
    return out


def run(tier, replay=None):
    thorough = tier == "thorough"
    r = Rng(seed())
    broken = []
    ok_tr, tr_out = regen()
    if not ok_tr:
        broken.append("translator: " + tr_out)
    hyg = hygiene()
    if hyg:
        broken.append("forbidden vernacular: " + "; ".join(hyg))
    ok_model, mk1 = coq_make(["Conf/ClientConf.vo"])
    ok_props, mk2 = coq_make(["Props/C16.vo"]) if ok_model else (False, mk1)
    closed = {}
    if ok_props:
        closed, aout = assumptions(PROP, THEOREMS, "Props.C16")
        if closed is None:
            ok_props, mk2, closed = False, aout, {}
    if not ok_props:
        broken.append("Props/C16.vo does not compile: " + (mk2 or "")[-1500:])
    elif [t for t in THEOREMS if closed.get(t) != "closed"]:
        broken.append("not closed under the global context: %s" % [t for t in THEOREMS if closed.get(t) != "closed"])
    if thorough and ok_props:
        okc, summ = coqchk(PROP)
        if not okc:
            broken.append("independent checker: " + summ)
    okb, bout = harness_build("debug")
    if not okb:
        rp = write_replay(PROP, "harness_build", {"what": "harness does not build against /repo", "log": bout[-4000:]})
        write_evidence(PROP, tier, {"obligations": len(THEOREMS), "discharged": 0, "checker_cmd": "make", "trusted_base": TRUSTED_BASE}, [], 1)
        print(f"VIOLATION property={PROP} replay={rp} no-failing-input-found")
        return 1
    known = {k["id"]: k for k in load_known(PROP)}
    known_seen = {}
    violations, disagreements = [], []
    stats = {"histories": 0, "ops": {}, "completed": 0, "timed_out": 0, "leak_probes": 0}
    distinct = set()

    def search(cases, tag):
        obs, hout = run_harness("client", cases, "debug", tag=tag, timeout=900)
        if obs is None:
            violations.append(("client harness crashed or hung: " + hout[-300:], cases[0] if cases else {}))
            return
        terms = []
        for c, ob in zip(cases, obs):
            stats["histories"] += 1
            if "ops" not in ob:
                violations.append(("client could not be set up: " + str(ob)[:200], c))
                terms.append("true")
                continue
            distinct.add(json.dumps(c["ops"]))
            for op in c["ops"]:
                stats["ops"][op["t"]] = stats["ops"].get(op["t"], 0) + 1
            if c.get("ids_probe"):
                # correlation ids: the first 70000 drawn from a fresh client are the model's (Model/ClientEngine.next_id iterated),
                # pairwise distinct and never 0 (C16_ids_distinct speaks about the model's sequence)
                n = ob["ops"][0]["note"]
                stats["id_probes"] = stats.get("id_probes", 0) + 1
                if n["zero"] or n["distinct"] != n["count"]:
                    violations.append((f"of {n['count']} correlation ids drawn in a row only {n['distinct']} are distinct (zero drawn: {n['zero']}): two requests in flight can share an id", c))
                terms.append("(N.iter %d next_id %d =? %d)" % (n["count"] - 1, n["first"], n["last"]))
                continue
            if c.get("nomodel"):
                stats["stalled_writer_probes"] = stats.get("stalled_writer_probes", 0) + 1
                for what, t in final_window_monitor(c, ob):
                    violations.append((what, c))
                terms.append("true")
                continue
            evs, obst, mon = to_terms(c, ob)
            for o in ob["ops"]:
                for res in o["done"].values():
                    stats["completed"] += 1 if "reply_id" in res else 0
                    stats["timed_out"] += 1 if "timed out" in res.get("error", "") else 0
            for what, t in mon + window_monitor(c, ob):
                violations.append((what, c))
            # capacity after timeouts: in a leak probe the second window must complete
            if c.get("probe"):
                stats["leak_probes"] += 1
                second = [op["id"] for op in c["ops"] if op["t"] == "reply"]
                ok_ids = {int(i) for o in ob["ops"] for i, res in o["done"].items() if "reply_id" in res}
                if not set(second) <= ok_ids:
                    if "K16a" in known:
                        known_seen["K16a"] = c
                    else:
                        violations.append((f"after {c['max_inflight']} timed-out requests a full window of healthy requests no longer completes (permits leaked): completed {sorted(ok_ids)} of {second}", c))
            terms.append("client_conf (init_client %d%%nat %s) [%s] [%s]" % (c["max_inflight"], RELEASES, ";".join(evs), ";".join(obst)))
        if ok_model:
            bad, cout = coq_eval(PRELUDE, terms, kind="bool", tag=tag + "c")
            if bad is None:
                broken.append("correspondence could not be evaluated: " + cout[-600:])
            else:
                for i in bad:
                    disagreements.append({"case": cases[i]})

    if replay:
        with open(replay) as f:
            search(json.load(f).get("cases", []), "r")
    else:
        cases = [dict(gen_case(r, 0, leak_probe=True), probe=True) for _ in range(6)]
        cases += [stalled_writer_case(r) for _ in range(3 if thorough else 1)]
        cases += [{"max_inflight": 4, "timeout_ms": 300, "ops": [{"t": "ids", "count": 70000}], "ids_probe": True}]
        cases += [gen_case(r, r.randint(6, 40)) for _ in range(600 if thorough else 80)]
        search(cases, "q")
        # the peer is away for good: a request fails within the time the configured back-off allows (delays capped at
        # backoff_max_delay, jitter at most the capped delay), it does not hang while holding the client's mutex
        import linklib as ll
        uc = ll.unreachable_cases(r, 12 if thorough else 5)
        uobs, uout = ll.run_client(uc, tag="c16un")
        if uobs is None:
            violations.append(("s2mclient harness crashed or hung with the peer away: " + uout[-300:], uc[0]))
        else:
            stats["unreachable_peer_cases"] = len(uc)
            for c, ob in zip(uc, uobs):
                for what in ll.unreachable_monitor(c, ob):
                    violations.append((what, c))
        if (broken or disagreements) and not violations:
            log("proof/correspondence broken; extended search")
            rr = Rng(seed() + 7919)
            search([gen_case(rr, rr.randint(6, 50)) for _ in range(500)], "x")

    coverage = {
        "obligations": len(THEOREMS), "discharged": len([t for t in THEOREMS if closed.get(t) == "closed"]),
        "checker_cmd": "python3 translator/gen.py && make -C coq -j16 Props/C16.vo Conf/ClientConf.vo && coqc work/assm_C16.v",
        "trusted_base": TRUSTED_BASE, "theorems": THEOREMS, "print_assumptions": closed,
        "evaluations": stats["histories"], "distinct_nontrivial": len(distinct),
        "rule": "histories of issue / peer reply (in order, out of order, duplicated, late, unsolicited) / ping / unsolicited push / link break / time advance against the real generic Client (max_idle_connections=1) over an in-memory link with a scripted peer under virtual time; per op the written request ids, pongs, completions and timeouts are compared with the model in coqc; leak probes: k timeouts followed by a full window of healthy requests; stalled-writer probe: the peer stops reading until the outbound queue is full and requests time out waiting for room in it, then recovers and a full window must complete",
        "traces_validated_against_impl": stats["histories"], "disagreements": len(disagreements), "distribution": stats,
        "samples": [], "known_findings_reproduced": sorted(known_seen), "exhaustive": False,
    }
    assum = ["async_lock::Semaphore fairness (FIFO) and tokio timer ordering are modelled, not verified",
             "pooled mode (max_idle_connections > 1, deadpool) and the S2M/M2S wrappers are not modelled"]
    if violations:
        what, c = violations[0]
        rp = write_replay(PROP, "violation", {"what": what, "cases": [c], "all": [w for w, _ in violations[:20]], "broken": broken})
        write_evidence(PROP, tier, coverage, assum, len(violations))
        print(f"VIOLATION property={PROP} replay={rp}")
        log(what)
        return 1
    if broken or disagreements:
        rp = write_replay(PROP, "broken", {"what": "no failing input found; the following no longer checks", "broken": broken,
                                           "correspondence": "Conf/ClientConf.client_conf", "cases": [d["case"] for d in disagreements[:5]]})
        write_evidence(PROP, tier, coverage, assum, 1)
        print(f"VIOLATION property={PROP} replay={rp} no-failing-input-found")
        return 1
    for kid in sorted(known):
        if kid in known_seen:
            print(f"KNOWN-FINDING: property={PROP} {kid} {known[kid]['what']}")
    write_evidence(PROP, tier, coverage, assum, 0)
    return 0
