"""C12 — decided on the server model; see lib/srvprops.py and coq/Props/C12.v"""
import srvprops

PROP = "C12"
THEOREMS = ["C12_exactly_one_reply", "C12_any_frame", "C12_inflight_zero_drops", "C12_reply_then_close_witness", "C12_oversize_reply_replaced_under_its_own_id", "C12_conc_reply_discipline", "C12_conc_always_drains", "C12_source_refusal_order"]


import serverlib as sl


def burst_histories(r, thorough):
    """pipelining: one write carries a burst of requests within the advertised in-flight limit
    (also beyond the writer's 128-frame batch); every id must be answered exactly once"""
    cases = []
    for _ in range(12 if thorough else 4):
        cfg = sl.base_cfg(r, None)
        n = r.choice([5, 100, 129, 130, 200, 300] if thorough else [5, 60, 100, 129, 130])      # (a 300-request burst costs coqc minutes: thorough tier only)
        cfg.update({"max_clients": 10, "max_subs": 10, "max_conns": 16, "max_inflight": 512, "queue": 1024, "max_message": 8192})
        g = sl.Gen(r, cfg)
        for k, u in ((1, "alice"), (2, "bob")):
            g.ops.append({"t": "open", "k": k})
            g.send(k, sl.frame("CONNECT", [("version", 1), ("heartbeat_interval", 0)]))
            g.send(k, sl.frame("IDENTIFY", [("username", u)]))
            g.send(k, sl.frame("JOIN", [("id", g.rid()), ("channel", "!c1@localhost")]))
            g.conns[k] = {"phase": 2, "user": u}
        burst = b""
        for _ in range(n):
            x = r.random()
            i = g.rid()
            if x < 0.5:
                burst += sl.frame("CHANNELS", [("id", i)])
            elif x < 0.8:
                burst += sl.frame("MEMBERS", [("id", i), ("channel", "!c1@localhost")])
            else:
                burst += sl.frame("GET_CHAN_CONFIG", [("id", i), ("channel", r.choice(["!c1@localhost", "!c7@localhost"]))])
        g.ops.append({"t": "send", "k": 1, "bytes": burst.hex(), "script": []})
        cases.append({"cfg": cfg, "ops": g.ops})
    return cases


def run(tier, replay=None):
    return srvprops.run(PROP, THEOREMS, tier, replay, extra_gen=lambda r, th: burst_histories(r, th) + sl.split_histories(r, th) + sl.oversize_histories(r, th),
                        rule_note="plus pipelined bursts of 5-300 requests in one write (in-flight limit 512); plus request headers split over two writes with server-to-client traffic on the same connection in between; plus small message buffers with long names (replies that do not fit must come back as RESPONSE_TOO_LARGE with the request's id)")
