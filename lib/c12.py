"""C12 — decided on the server model; see lib/srvprops.py and coq/Props/C12.v"""
import srvprops

PROP = "C12"
THEOREMS = ["C12_model_smoke"]


def run(tier, replay=None):
    return srvprops.run(PROP, THEOREMS, tier, replay)
