"""C12 — decided on the server model; see lib/srvprops.py and coq/Props/C12.v"""
import srvprops

PROP = "C12"
THEOREMS = ["C12_exactly_one_reply", "C12_any_frame", "C12_inflight_zero_drops", "C12_reply_then_close_witness"]


def run(tier, replay=None):
    return srvprops.run(PROP, THEOREMS, tier, replay)
