"""C15 — outbound frames intact and ordered; a slow consumer only hurts itself."""
import json

import codecgen as cg
import serverlib as sl
from common import (coqchk, Rng, assumptions, coq_bytes, coq_eval, coq_make, harness_build, hygiene, load_known, log, regen,
                    run_harness, seed, write_evidence, write_replay, TRUSTED_BASE)

PROP = "C15"
THEOREMS = ["C15_model_smoke", "C15_frame_shape", "C15_bytes_are_frames", "C15_batching_irrelevant", "C15_prefix_on_failure",
            "C15_overflow_requests_close", "C15_non_interference",
            "C15_no_connection_ever_waits_for_a_message_buffer", "C15_buffers_in_use_bounded", "C15_unguarded_batches_starve_others_refuted", "C15_unguarded_stuck_until_the_stalled_write_ends", "C15_source_write_budget", "C15_close_request_against_a_pending_write"]
PRELUDE = ("From NW Require Import Base.Bytes Model.SchemaTypes Gen.Schema Model.Codec Model.Outbound Model.Server "
           "Conf.CodecConf Conf.OutboundConf.\n")


def kind_index(name):
    return [s[1] for s in cg.schema()].index(name)


def mk_item(r, maxpl):
    k = r.random()
    if k < 0.55:
        n = r.choice([1, 2, 3, 10, 255, 256, 257, maxpl])
        pl = bytes(r.choice(b"ab\n\x00 \\=") if r.random() < 0.5 else r.randrange(256) for _ in range(n))
        fields = [{"s": b"alice@localhost".hex()}, {"s": b"!c1@localhost".hex()}, {"n": n}]
        return {"kind": kind_index("MESSAGE"), "fields": fields, "payload": pl.hex()}, \
            b"MESSAGE channel=!c1@localhost from=alice@localhost length=%d\n" % n + pl + b"\n"
    if k < 0.8:
        nid = r.choice([b"bob@localhost", b"carol@localhost"])
        own = r.random() < 0.5
        fields = [{"s": b"MEMBER_JOINED".hex()}, {"os": b"!c1@localhost".hex()}, {"os": nid.hex()}, {"ob": own}]
        return {"kind": kind_index("EVENT"), "fields": fields, "payload": None}, \
            b"EVENT channel=!c1@localhost kind=MEMBER_JOINED nid=" + nid + b" owner=" + (b"true" if own else b"false") + b"\n"
    i = r.randint(1, 99999)
    return {"kind": kind_index("JOIN_ACK"), "fields": [{"n": i}, {"s": b"!c1@localhost".hex()}], "payload": None}, \
        b"JOIN_ACK id=%d channel=!c1@localhost\n" % i


def gen_cases(r, n, thorough):
    cases = []
    for i in range(n):
        maxpl = r.choice([256, 512])
        big = (i % 12 == 0)
        count = r.choice([130, 200, 260]) if big else r.randint(1, 12)
        overflow = r.random() < 0.25 and not big
        queue = r.randint(1, max(1, count - 1)) if overflow and count > 1 else count + r.randint(0, 5)
        overflow = count > queue
        items, frames = [], []
        for _ in range(count):
            it, fb = mk_item(r, maxpl)
            items.append(it)
            frames.append(fb)
        total = sum(len(f) for f in frames)
        style = r.random()
        if style < 0.3:
            oracle = [1] * min(total, 4000 if thorough else 1500)
        elif style < 0.7:
            oracle = [r.choice([1, 1, 2, 3, 5, 7, 64, 300, 100000]) for _ in range(r.randint(1, 60))]
        else:
            oracle = []
        oracle = [("P" if r.random() < 0.1 else x) for x in oracle]
        fail = r.random() < 0.12 and not overflow
        if fail:
            oracle = oracle[:r.randint(0, min(len(oracle), 8))] + [r.choice(["E", 0])]
        cfg = {"max_msg": 256, "max_payload": maxpl, "budget": 1 << 20, "max_conns": 2, "queue": queue}
        # a third of the cases run over a STAGING transport (what userspace TLS is): accepted bytes reach the peer only when
        # the writer is flushed; what has reached the peer while the connection is open and idle is what counts
        cases.append({"cfg": cfg, "items": items, "oracle": oracle, "expect": [f.hex() for f in frames], "overflow": overflow, "fail": fail,
                      "staging": r.random() < 0.34 and not fail and not overflow})
    return cases


def stalled_histories(r, n):
    """a member stops reading; the publisher and the other members must be unaffected"""
    cases = []
    for _ in range(n):
        cfg = sl.base_cfg(r, None)
        cfg.update({"max_clients": 10, "max_subs": 10, "max_conns": 16, "queue": r.choice([4, 8]), "max_payload": 1024})
        ops = []
        users = ["alice", "bob", "carol"]
        for k, u in enumerate(users, start=1):
            ops.append({"t": "open", "k": k, "duplex": r.choice([8, 24, 70, 256]) if u == "carol" else (1 << 20)})
            ops.append({"t": "send", "k": k, "bytes": sl.frame("CONNECT", [("version", 1), ("heartbeat_interval", 0)]).hex()})
            ops.append({"t": "send", "k": k, "bytes": sl.frame("IDENTIFY", [("username", u)]).hex()})
            ops.append({"t": "send", "k": k, "bytes": sl.frame("JOIN", [("id", 10 + k), ("channel", "!c1@localhost")]).hex()})
        ops.append({"t": "stall", "k": 3})
        # enough traffic on the healthy connections to cycle the whole shared message-buffer pool
        # (2*max_conns + 128 buffers) while the stalled peer's write is pending
        cfg["max_conns"] = 4
        for i in range(r.randint(90, 140)):
            # headers of different lengths and publishers, so a recycled header buffer cannot go unnoticed
            pl = bytes(r.randrange(256) for _ in range(r.choice([5, 37, 100, 200, 1000])))
            pub = r.choice([1, 1, 2])
            ops.append({"t": "send", "k": pub, "bytes": sl.frame("BROADCAST", [("id", 100 + i), ("channel", "!c1@localhost"), ("length", len(pl))], pl).hex(),
                        "bcast": pl.hex(), "pub": pub, "settle_ms": 1})
        # the stalled peer starts reading again: whatever it gets must be whole frames, in order, of what was queued for it
        ops.append({"t": "stall", "k": 3, "on": False, "resume": True})
        ops.append({"t": "advance", "ms": 50, "resume": True})
        cases.append({"cfg": cfg, "ops": ops})
    return cases


def backlog_histories(r, n):
    """stalled members with a DEEP backlog: one publisher pipelines 100-300 broadcasts in a single chunk while one or two
    members of the channel do not read at all; the connection table is small, so the shared message-buffer pool
    (2*max_connections + 128) is of the order of the backlog.  The publisher must get every BROADCAST_ACK, the healthy
    member every MESSAGE (in order, intact), and afterwards both must still be served."""
    cases = []
    for i in range(n):
        cfg = sl.base_cfg(r, None)
        maxc = r.choice([4, 4, 5, 8])
        cfg.update({"max_clients": 10, "max_subs": 10, "max_conns": maxc, "max_channels": 100, "max_inflight": 1000, "queue": 2048, "max_payload": 1024})
        users = ["alice", "bob", "carol", "dave"]
        n_stalled = 1 if i % 2 == 0 else 2
        ops = []
        for k, u in enumerate(users, start=1):
            ops.append({"t": "open", "k": k, "duplex": r.choice([64, 256, 1024]) if k <= n_stalled else (1 << 20)})
            ops.append({"t": "send", "k": k, "bytes": sl.frame("CONNECT", [("version", 1), ("heartbeat_interval", 0)]).hex()})
            ops.append({"t": "send", "k": k, "bytes": sl.frame("IDENTIFY", [("username", u)]).hex()})
            ops.append({"t": "send", "k": k, "bytes": sl.frame("JOIN", [("id", 10 + k), ("channel", "!c1@localhost")]).hex()})
        for k in range(1, n_stalled + 1):
            ops.append({"t": "stall", "k": k})
        nb = r.randint(100, 300)
        blob = b""
        pls = []
        for j in range(nb):
            pl = bytes(r.randrange(256) for _ in range(r.choice([3, 8, 40])))
            pls.append(pl.hex())
            blob += sl.frame("BROADCAST", [("id", 1000 + j), ("channel", "!c1@localhost"), ("length", len(pl))], pl)
        ops.append({"t": "send", "k": 3, "bytes": blob.hex(), "backlog": pls})
        ops.append({"t": "advance", "ms": 100, "backlog_more": True})
        ops.append({"t": "send", "k": 3, "bytes": sl.frame("MEMBERS", [("id", 7), ("channel", "!c1@localhost")]).hex(), "after": 3})
        ops.append({"t": "send", "k": 4, "bytes": sl.frame("MEMBERS", [("id", 8), ("channel", "!c1@localhost")]).hex(), "after": 4})
        cases.append({"cfg": cfg, "ops": ops, "n_stalled": n_stalled})
    return cases


def exhaust_histories(r):
    """directed (known finding K15b): a tiny payload pool (128 buffers), a queue larger than that, one member not reading and a
    backlog of 200 broadcasts; and the same history with everybody reading (control: must be served completely)"""
    cases = []
    for stalled in (True, False):
        cfg = sl.base_cfg(r, None)
        cfg.update({"max_clients": 10, "max_subs": 10, "max_conns": 4, "max_channels": 100, "max_inflight": 1000, "queue": 256, "max_payload": 1024, "budget": 65536})
        ops = []
        for k, u in enumerate(["alice", "bob", "carol", "dave"], start=1):
            ops.append({"t": "open", "k": k, "duplex": 256 if (k == 1 and stalled) else (1 << 20)})
            ops.append({"t": "send", "k": k, "bytes": sl.frame("CONNECT", [("version", 1), ("heartbeat_interval", 0)]).hex()})
            ops.append({"t": "send", "k": k, "bytes": sl.frame("IDENTIFY", [("username", u)]).hex()})
            ops.append({"t": "send", "k": k, "bytes": sl.frame("JOIN", [("id", 10 + k), ("channel", "!c1@localhost")]).hex()})
        if stalled:
            ops.append({"t": "stall", "k": 1})
        blob, pls = b"", []
        for j in range(200):
            pl = bytes(r.randrange(256) for _ in range(8))
            pls.append(pl.hex())
            blob += sl.frame("BROADCAST", [("id", 1000 + j), ("channel", "!c1@localhost"), ("length", len(pl))], pl)
        ops.append({"t": "send", "k": 3, "bytes": blob.hex(), "backlog": pls})
        ops.append({"t": "advance", "ms": 100})
        ops.append({"t": "send", "k": 3, "bytes": sl.frame("MEMBERS", [("id", 7), ("channel", "!c1@localhost")]).hex()})
        ops.append({"t": "send", "k": 4, "bytes": sl.frame("MEMBERS", [("id", 8), ("channel", "!c1@localhost")]).hex()})
        cases.append({"cfg": cfg, "ops": ops, "n_stalled": 1 if stalled else 0})
    return cases


def check_backlog(case, ob, violations):
    if "ops" not in ob:
        violations.append(("deep-backlog history could not run: " + str(ob)[:200], case))
        return
    pls = next(op["backlog"] for op in case["ops"] if "backlog" in op)
    acks, got = 0, []
    after = {}
    seen = False
    for op, o in zip(case["ops"], ob["ops"]):
        seen = seen or "backlog" in op
        if not seen:
            continue
        for f in o["conns"].get("3", {"frames": []})["frames"]:
            if "undecodable" not in f and sl.frame_name(f) == "BROADCAST_ACK":
                acks += 1
            if "undecodable" not in f and sl.frame_name(f) == "MEMBERS_ACK":
                after[3] = True
        for f in o["conns"].get("4", {"frames": []})["frames"]:
            if "undecodable" not in f and sl.frame_name(f) == "MESSAGE":
                got.append(f["payload"])
            if "undecodable" not in f and sl.frame_name(f) == "MEMBERS_ACK":
                after[4] = True
    who = "%d member(s) not reading, backlog of %d broadcasts, max_connections %d" % (case["n_stalled"], len(pls), case["cfg"]["max_conns"])
    if acks != len(pls):
        violations.append(("the publisher received %d of %d BROADCAST_ACKs (%s): a slow consumer blocks the publisher" % (acks, len(pls), who), case))
    elif got != pls:
        violations.append(("a healthy member received %d of %d MESSAGEs (or out of order / damaged) (%s): a slow consumer blocks deliveries to others" % (len(got), len(pls), who), case))
    elif not (after.get(3) and after.get(4)):
        violations.append(("after the backlog the healthy connections are no longer served (%s)" % who, case))


def check_stalled(case, ob, violations, known_seen, known):
    if "ops" not in ob:
        violations.append(("stalled-receiver history could not run: " + str(ob)[:200], case))
        return
    carol_closed = False
    for op, o in zip(case["ops"], ob["ops"]):
        if "bcast" not in op:
            continue
        pl = op["bcast"]
        pub = op.get("pub", 1)
        a = o["conns"].get(str(pub), {"frames": []})["frames"]
        b = o["conns"].get(str(3 - pub), {"frames": []})["frames"]
        if not any(sl.frame_name(f) == "BROADCAST_ACK" for f in a if "undecodable" not in f):
            violations.append(("publisher's BROADCAST_ACK missing or delayed while another member is stalled", case))
            return
        got = [f for f in b if "undecodable" not in f and sl.frame_name(f) == "MESSAGE"]
        if len(got) != 1 or got[0]["payload"] != pl:
            violations.append(("a healthy member missed (or got a damaged) MESSAGE while another member is stalled", case))
            return
    # what the stalled peer receives once it reads again: MESSAGE frames of the broadcasts, in order, each payload intact
    sent = [op["bcast"] for op in case["ops"] if "bcast" in op]
    got = []
    for op, o in zip(case["ops"], ob["ops"]):
        if not op.get("resume"):
            continue
        c3 = o["conns"].get("3")
        if not c3:
            continue
        if c3.get("leftover"):
            violations.append(("the formerly stalled peer received bytes that are not whole frames", case))
            return
        for f in c3["frames"]:
            if "undecodable" in f:
                violations.append(("the formerly stalled peer received an undecodable line (frames not intact)", case))
                return
            n = sl.frame_name(f)
            if n == "MESSAGE":
                got.append(f["payload"])
            elif n == "ERROR":
                pass
            else:
                violations.append((f"the formerly stalled peer received a {n} frame that was never queued for it (another connection's buffer?)", case))
                return
    it = iter(sent)
    if not all(any(g == x for x in it) for g in got):
        violations.append(("the formerly stalled peer received MESSAGE payloads that are not an in-order subsequence of the broadcasts", case))
        return
    # the stalled peer should have been disconnected (OUTBOUND_QUEUE_FULL) once its queue filled up
    if "3" not in {k for op, o in zip(case["ops"], ob["ops"]) if not op.get("resume") for k in o.get("ended", {})}:
        if "K15a" in known:
            known_seen.setdefault("K15a", case)
        else:
            violations.append(("a peer that stopped reading is never disconnected although its outbound queue overflowed", case))


def run(tier, replay=None):
    thorough = tier == "thorough"
    r = Rng(seed())
    broken = []
    ok_tr, tr_out = regen()
    if not ok_tr:
        broken.append("translator: " + tr_out)
    hyg = hygiene()
    if hyg:
        broken.append("forbidden vernacular: " + "; ".join(hyg))
    ok_model, mk1 = coq_make(["Conf/OutboundConf.vo"])
    ok_props, mk2 = coq_make(["Props/C15.vo"]) if ok_model else (False, mk1)
    closed = {}
    if ok_props:
        closed, aout = assumptions(PROP, THEOREMS, "Props.C15")
        if closed is None:
            ok_props, mk2, closed = False, aout, {}
    if not ok_props:
        broken.append("Props/C15.vo does not compile: " + (mk2 or "")[-1500:])
    elif [t for t in THEOREMS if closed.get(t) != "closed"]:
        broken.append("not closed under the global context: %s" % [t for t in THEOREMS if closed.get(t) != "closed"])
    if thorough and ok_props:
        okc, summ = coqchk(PROP)
        if not okc:
            broken.append("independent checker: " + summ)
    okb, bout = harness_build("debug")
    if not okb:
        rp = write_replay(PROP, "harness_build", {"what": "harness does not build against /repo", "log": bout[-4000:]})
        write_evidence(PROP, tier, {"obligations": len(THEOREMS), "discharged": 0, "checker_cmd": "make", "trusted_base": TRUSTED_BASE}, [], 1)
        print(f"VIOLATION property={PROP} replay={rp} no-failing-input-found")
        return 1
    known = {k["id"]: k for k in load_known(PROP)}
    known_seen = {}
    violations, disagreements = [], []
    stats = {"cases": 0, "items": 0, "write_calls": 0, "overflow_cases": 0, "failed_write_cases": 0, "multi_batch_cases": 0, "one_byte_write_calls": 0}
    nontrivial = set()

    def search(cases, tag):
        obs, hout = run_harness("outbound", cases, "debug", tag=tag, timeout=1500)
        if obs is None:
            violations.append(("outbound harness crashed or hung: " + hout[-300:], cases[0] if cases else {}))
            return
        terms = []
        for c, o in zip(cases, obs):
            stats["cases"] += 1
            stats["items"] += len(c["items"])
            if o.get("invalid"):
                terms.append("true")
                continue
            stats["write_calls"] += len(o["calls"])
            stats["one_byte_write_calls"] += len([1 for x in o["calls"] if x["ret"] == 1])
            stats["multi_batch_cases"] += 1 if len(c["items"]) > 128 else 0
            stats["overflow_cases"] += 1 if c.get("overflow") else 0
            stats["failed_write_cases"] += 1 if c.get("fail") else 0
            got = bytes.fromhex(o["out_idle"] if c.get("staging") and not c.get("overflow") and not c.get("fail") and "out_idle" in o else o["out"])
            stats["staging_transport_cases"] = stats.get("staging_transport_cases", 0) + (1 if c.get("staging") else 0)
            if o["panic"] is True or o["panic"] == "hung":
                violations.append((f"connection task {o['panic']} while writing", c))
            exp = b"".join(bytes.fromhex(x) for x in c["expect"]) if "expect" in c else None
            if exp is not None:
                nontrivial.add(o["out"])
                if not c.get("overflow") and not c.get("fail"):
                    if got != exp:
                        violations.append(("bytes received differ from the concatenation of the queued frames (no write error, no overflow)"
                                           + ("; staging transport: bytes accepted by the writer but not flushed never reach the peer" if c.get("staging") else ""), c))
                elif c.get("fail"):
                    if not exp.startswith(got):
                        violations.append(("after a failed write the bytes received are not a prefix of the queued frames", c))
                else:
                    errf = b"ERROR reason=OUTBOUND_QUEUE_FULL\n"
                    ok = got.endswith(errf)
                    body = got[:-len(errf)] if ok else got
                    acc = b""
                    okp = body == b""
                    for fr in c["expect"][:c["cfg"]["queue"]]:
                        acc += bytes.fromhex(fr)
                        if acc == body:
                            okp = True
                    if not (ok and okp):
                        violations.append(("queue overflow: expected whole frames of the accepted items followed by ERROR OUTBOUND_QUEUE_FULL and a close", c))
            its = "[" + ";".join("(%s, %s)" % (cg.coq_msg(it), "None" if it["payload"] is None else "Some %s" % coq_bytes(bytes.fromhex(it["payload"]))) for it in c["items"]) + "]"
            orl = [x for x in c["oracle"] if x != "P"]
            if orl and all(x == 1 for x in orl):
                orc = "(repeat (Accept 1%%nat) (N.to_nat %d))" % len(orl)
            else:
                orc = "[" + ";".join(("WErr" if x == "E" else "Accept (N.to_nat %d)" % min(x, 70000)) for x in orl) + "]"
            terms.append("out_case %d%%nat %d%%nat %s %s %s" % (c["cfg"]["max_msg"], c["cfg"]["queue"], its, orc, coq_bytes(got)))
        if ok_model:
            bad, cout = coq_eval(PRELUDE, terms, kind="bool", tag=tag + "c")
            if bad is None:
                broken.append("correspondence could not be evaluated: " + cout[-600:])
            else:
                for i in bad:
                    disagreements.append({"case": {k: v for k, v in cases[i].items() if k != "expect"}, "observed": obs[i]["out"][:400]})

    if replay:
        with open(replay) as f:
            search(json.load(f).get("cases", []), "r")
    else:
        cases = gen_cases(r, 600 if thorough else 90, thorough)
        search(cases, "q")
        st = stalled_histories(r, 24 if thorough else 6)
        sobs, hout = sl.run_histories(st, "debug", tag="stall", timeout=900)
        if sobs is None:
            violations.append(("stalled-receiver scenario hung the whole server (other connections starved): " + hout[-300:], st[0]))
        else:
            stats["stalled_receiver_histories"] = len(st)
            for c, ob in zip(st, sobs):
                check_stalled(c, ob, violations, known_seen, known)
        bl = backlog_histories(r, 16 if thorough else 4)
        bobs, hout = sl.run_histories(bl, "debug", tag="backlog", timeout=900)
        if bobs is None:
            violations.append(("deep-backlog scenario hung or crashed the whole server: " + hout[-300:], bl[0]))
        else:
            stats["deep_backlog_histories"] = len(bl)
            for c, ob in zip(bl, bobs):
                check_backlog(c, ob, violations)
        ex = exhaust_histories(r)
        eobs, hout = sl.run_histories(ex, "debug", tag="exhaust", timeout=600)
        if eobs is None:
            violations.append(("payload-pool exhaustion scenario hung or crashed the whole server: " + hout[-300:], ex[0]))
        else:
            stats["payload_pool_exhaustion_histories"] = len(ex)
            for c, ob in zip(ex, eobs):
                mine = []
                check_backlog(c, ob, mine)
                if mine and c["n_stalled"] and "K15b" in known:
                    known_seen.setdefault("K15b", c)       # the listed finding: a stalled backlog pins the whole payload pool
                else:
                    violations.extend(mine)
        if (broken or disagreements) and not violations:
            log("proof/correspondence broken; extended search")
            search(gen_cases(Rng(seed() + 7919), 500, True), "x")

    coverage = {
        "obligations": len(THEOREMS), "discharged": len([t for t in THEOREMS if closed.get(t) == "closed"]),
        "checker_cmd": "python3 translator/gen.py && make -C coq -j16 Props/C15.vo Conf/OutboundConf.vo && coqc work/assm_C15.v",
        "trusted_base": TRUSTED_BASE, "theorems": THEOREMS, "print_assumptions": closed,
        "evaluations": stats["cases"], "distinct_nontrivial": len(nontrivial),
        "rule": "a dispatcher queues 1..260 messages (payload-bearing MESSAGE frames with binary/newline payloads, EVENT, JOIN_ACK) on the real connection; the transport's write_vectored follows a scripted oracle (1-byte accepts, random accepts, pending bursts, errors, zero-length writes); queue sizes below the item count force overflow; received bytes are compared with the model inside coqc and with an independently computed concatenation of frames; plus stalled-receiver histories on the full server. distinct non-trivial = distinct received byte streams",
        "traces_validated_against_impl": stats["cases"], "disagreements": len(disagreements), "distribution": stats,
        "samples": [{"cfg": cases[0]["cfg"], "items": cases[0]["items"][:2], "oracle": cases[0]["oracle"][:10]}] if not replay else [],
        "known_findings_reproduced": sorted(known_seen), "exhaustive": False,
    }
    assum = ["memory safety of the raw-pointer iovec construction in prepare_iovs is not modelled (the model works on values)",
             "batch boundaries in the harness are deterministic (all items are queued before the writer runs); the theorem covers every batching"]
    if violations:
        what, c = violations[0]
        rp = write_replay(PROP, "violation", {"what": what, "cases": [c], "all": [w for w, _ in violations[:20]], "broken": broken})
        write_evidence(PROP, tier, coverage, assum, len(violations))
        print(f"VIOLATION property={PROP} replay={rp}")
        log(what)
        return 1
    if broken or disagreements:
        rp = write_replay(PROP, "broken", {"what": "no failing input found; the following no longer checks", "broken": broken,
                                           "correspondence": "Conf/OutboundConf.out_case", "cases": [d["case"] for d in disagreements[:5]],
                                           "disagreements": disagreements[:5]})
        write_evidence(PROP, tier, coverage, assum, 1)
        print(f"VIOLATION property={PROP} replay={rp} no-failing-input-found")
        return 1
    for kid in sorted(known):
        if kid in known_seen:
            print(f"KNOWN-FINDING: property={PROP} {kid} {known[kid]['what']}")
    write_evidence(PROP, tier, coverage, assum, 0)
    return 0
