"""Boot probe: the real entry point narwhal_server::run (configuration file, TLS listener with a self-signed certificate,
worker pool on real threads, real time, SIGTERM shutdown) is started as a child process and probed over TLS sockets:
every configured limit is set to a distinct small value and must be the one enforced; on SIGTERM every open connection
is told SERVER_SHUTTING_DOWN.  Supporting evidence (real time, real sockets): a handful of probes, generous timeouts."""
import os
import signal
import socket
import ssl
import subprocess
import time

import serverlib as sl
from common import WORK, harness_bin


def free_port():
    s = socket.socket()
    s.bind(("127.0.0.1", 0))
    p = s.getsockname()[1]
    s.close()
    return p


class Peer:
    def __init__(self, port):
        ctx = ssl.create_default_context()
        ctx.check_hostname = False
        ctx.verify_mode = ssl.CERT_NONE
        raw = socket.create_connection(("127.0.0.1", port), timeout=5)
        self.s = ctx.wrap_socket(raw, server_hostname="localhost")
        self.s.settimeout(10)
        self.buf = b""

    def send(self, data):
        self.s.sendall(data)

    def line(self, timeout=10):
        """next header line (payloads are skipped by their announced length); None on timeout / close"""
        self.s.settimeout(timeout)
        try:
            while b"\n" not in self.buf:
                d = self.s.recv(65536)
                if not d:
                    return None
                self.buf += d
        except (socket.timeout, ssl.SSLError, OSError):
            return None
        l, self.buf = self.buf.split(b"\n", 1)
        toks = l.split(b" ")
        if toks[0] in (b"MESSAGE", b"MOD_DIRECT"):
            n = int([t for t in toks if t.startswith(b"length=")][0][7:])
            try:
                while len(self.buf) < n + 1:
                    self.buf += self.s.recv(65536)
            except (socket.timeout, ssl.SSLError, OSError):
                return l
            self.buf = self.buf[n + 1:]
        return l

    def reply(self, rid, timeout=10):
        """the frame answering request rid (EVENT / MESSAGE frames in between are skipped)"""
        end = time.time() + timeout
        while time.time() < end:
            l = self.line(max(0.1, end - time.time()))
            if l is None:
                return None
            if (b"id=%d" % rid) in l.split(b" ") or l.startswith(b"ERROR") and b" id=" not in l:
                return l
        return None

    def login(self, user):
        self.send(sl.frame("CONNECT", [("version", 1), ("heartbeat_interval", 0)]))
        ack = self.line()
        self.send(sl.frame("IDENTIFY", [("username", user)]))
        return ack, self.line()

    def close(self):
        try:
            self.s.close()
        except OSError:
            pass


def field(line, name):
    for t in (line or b"").split(b" "):
        if t.startswith(name.encode() + b"="):
            return t.split(b"=", 1)[1]
    return None


def probe(r):
    """returns (violations, stats)"""
    lim = {"max_connections": 6, "max_channels": 3, "max_clients_per_channel": 2, "max_channels_per_client": 4,
           "max_message_size": 512, "max_payload_size": 300, "max_inflight_requests": 7}
    if r.random() < 0.5:
        lim.update({"max_clients_per_channel": 3, "max_channels_per_client": 2, "max_channels": 4})
    port = free_port()
    os.makedirs(WORK, exist_ok=True)
    cfgp = os.path.join(WORK, "boot_%d.toml" % port)
    with open(cfgp, "w") as f:
        f.write('[c2s-server.listener]\ndomain = "localhost"\nbind_address = "127.0.0.1"\nport = %d\n\n[c2s-server.limits]\n' % port)
        for k, v in lim.items():
            f.write("%s = %d\n" % (k, v))
        f.write("payload_pool_memory_budget = 1048576\noutbound_message_queue_size = 64\nrate_limit = 0\n")
    proc = subprocess.Popen([harness_bin("debug"), "boot", cfgp], stdout=subprocess.DEVNULL, stderr=subprocess.PIPE)
    viol, stats = [], {"boot_probes": 0}
    peers = []
    try:
        up = False
        for _ in range(400):      # up to 40 s: the machine may be busy
            if proc.poll() is not None:
                break
            try:
                socket.create_connection(("127.0.0.1", port), timeout=0.2).close()
                up = True
                break
            except OSError:
                time.sleep(0.1)
        if not up:
            err = proc.stderr.read().decode("latin1")[-400:] if proc.poll() is not None else ""
            return [("the server did not come up through narwhal_server::run: " + err, lim)], stats
        time.sleep(0.2)

        def check(cond, what):
            stats["boot_probes"] += 1
            if not cond:
                viol.append((what, lim))

        # connections first, on the fresh server: exactly max_connections are admitted, the next one is refused
        extra = []
        refused = None
        for i in range(lim["max_connections"] + 2):
            try:
                p = Peer(port)
            except OSError:
                break
            extra.append(p)
            p.send(sl.frame("CONNECT", [("version", 1), ("heartbeat_interval", 0)]))
            l = p.line(10)
            if l is None or b"SERVER_OVERLOADED" in l:
                refused = i
                break
        check(refused == lim["max_connections"], f"the listener refused a connection when {refused} were alive, configured max_connections={lim['max_connections']}")
        for p in extra:
            p.close()
        time.sleep(0.5)      # the server notices the closes and frees the slots
        a = Peer(port); peers.append(a)
        ack, ida = a.login("alice")
        check(field(ack, "max_subscriptions") == b"%d" % lim["max_channels_per_client"], f"CONNECT_ACK advertises max_subscriptions={field(ack, 'max_subscriptions')}, configured max_channels_per_client={lim['max_channels_per_client']}")
        check(field(ack, "max_message_size") == b"%d" % lim["max_message_size"], f"CONNECT_ACK advertises max_message_size={field(ack, 'max_message_size')}, configured {lim['max_message_size']}")
        check(field(ack, "max_payload_size") == b"%d" % lim["max_payload_size"], f"CONNECT_ACK advertises max_payload_size={field(ack, 'max_payload_size')}, configured {lim['max_payload_size']}")
        check(field(ack, "max_inflight_requests") == b"%d" % lim["max_inflight_requests"], f"CONNECT_ACK advertises max_inflight_requests={field(ack, 'max_inflight_requests')}, configured {lim['max_inflight_requests']}")
        check(ida is not None and ida.startswith(b"IDENTIFY_ACK"), f"IDENTIFY answered {ida}")
        users = ["bob", "carol", "dave"]
        ps = {}
        for u in users:
            p = Peer(port); peers.append(p)
            p.login(u)
            ps[u] = p
        # members per channel
        rid = 10
        a.send(sl.frame("JOIN", [("id", rid), ("channel", "!m@localhost")]))
        check((a.reply(rid) or b"").startswith(b"JOIN_ACK"), "first JOIN of a channel refused")
        admitted = 1
        for u in users:
            rid += 1
            ps[u].send(sl.frame("JOIN", [("id", rid), ("channel", "!m@localhost")]))
            rep = ps[u].reply(rid) or b""
            if rep.startswith(b"JOIN_ACK"):
                admitted += 1
            else:
                check(b"CHANNEL_IS_FULL" in rep, f"JOIN of a full channel answered {rep[:80]}")
                break
        check(admitted == lim["max_clients_per_channel"], f"a channel admitted {admitted} members, configured max_clients_per_channel={lim['max_clients_per_channel']}")
        # subscriptions per user (dave, who may or may not be in !m)
        d = Peer(port); peers.append(d)
        d.login("erin")
        joined = 0
        for j in range(lim["max_channels_per_client"] + 1):
            rid += 1
            # reuse existing channels first so that max_channels does not interfere
            ch = "!m@localhost" if False else "!s%d@localhost" % (j % max(1, lim["max_channels"] - 1))
            d.send(sl.frame("JOIN", [("id", rid), ("channel", ch)]))
            rep = d.reply(rid) or b""
            if rep.startswith(b"JOIN_ACK"):
                joined += 1
            elif b"USER_IN_CHANNEL" in rep:
                continue
            else:
                break
        stats["erin_joined"] = joined
        # payload size
        rid += 1
        big = b"x" * (lim["max_payload_size"] + 1)
        a.send(sl.frame("BROADCAST", [("id", rid), ("channel", "!m@localhost"), ("length", len(big))], big))
        rep = a.reply(rid) or b""
        check(b"POLICY_VIOLATION" in rep, f"a payload of max_payload_size+1 bytes was answered {rep[:80]}")
        # a burst of connections that never start the TLS handshake: the process runs out of descriptors (the server sets its
        # own limit from max_connections) and accept(2) fails for a while; once they are gone the listener must accept again
        storm = []
        for _ in range(120):
            try:
                storm.append(socket.create_connection(("127.0.0.1", port), timeout=1))
            except OSError:
                break
        stats["storm_sockets"] = len(storm)
        time.sleep(0.7)
        for sk in storm:
            try:
                sk.close()
            except OSError:
                pass
        time.sleep(1.0)
        served = None
        for _ in range(3):
            try:
                f = Peer(port)
                peers.append(f)
                f.send(sl.frame("CONNECT", [("version", 1), ("heartbeat_interval", 0)]))
                served = f.line(10)
                if served is not None:
                    break
            except (OSError, ssl.SSLError):
                time.sleep(1.0)
        check(served is not None and (served.startswith(b"CONNECT_ACK") or b"SERVER_OVERLOADED" in served),
              f"after a burst of {len(storm)} connections that exhausted the process's descriptors the listener no longer serves new connections (got {served})")
        # shutdown: everybody still connected is told
        watch = [p for p in (ps["bob"], ps["carol"]) if p]
        proc.send_signal(signal.SIGTERM)
        for p in watch:
            got = None
            for _ in range(40):
                l = p.line(15)
                if l is None:
                    break
                if l.startswith(b"ERROR"):
                    got = l
                    break
            check(got is not None and b"SERVER_SHUTTING_DOWN" in got, f"on SIGTERM a connected client received {got}")
        try:
            proc.wait(timeout=15)
        except subprocess.TimeoutExpired:
            viol.append(("the server did not stop within 15 s of SIGTERM", lim))
    finally:
        for p in peers:
            p.close()
        if proc.poll() is None:
            proc.kill()
        try:
            os.remove(cfgp)
        except OSError:
            pass
    return viol, stats
