"""C05 — decided on the server model; see lib/srvprops.py and coq/Props/C05.v"""
import srvprops

PROP = "C05"
THEOREMS = ["C05_model_smoke"]


def run(tier, replay=None):
    return srvprops.run(PROP, THEOREMS, tier, replay)
