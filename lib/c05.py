"""C05 — decided on the server model; see lib/srvprops.py and coq/Props/C05.v"""
import srvprops

PROP = "C05"
THEOREMS = ["C05_model_smoke", "C05_views_agree_reachable", "C05_index_is_membership", "C05_no_empty_channel", "C05_disconnect_cleans_up", "C05_fresh_channel_defaults", "C05_refused_join_changes_nothing", "C05_invariant_side_condition_tight"]


def run(tier, replay=None):
    return srvprops.run(PROP, THEOREMS, tier, replay)
