"""C05 — decided on the server model; see lib/srvprops.py and coq/Props/C05.v"""
import srvprops

PROP = "C05"
THEOREMS = ["C05_model_smoke", "C05_views_agree_reachable", "C05_index_is_membership", "C05_no_empty_channel", "C05_disconnect_cleans_up", "C05_fresh_channel_defaults", "C05_refused_join_changes_nothing", "C05_invariant_side_condition_tight", "C05_oversize_outbound_is_a_disconnect", "C05_invariant_with_oversize_outbound", "C05_conc_views_agree_at_quiescence", "C05_conc_listed_is_member_always", "C05_conc_disconnected_member_is_being_removed", "C05_conc_released_channel_stays_empty", "C05_conc_invariant_every_schedule", "C05_conc_waiting_join_admitted_to_released_channel_refuted", "C05_conc_waiting_join_refused_now", "C05_conc_late_index_leaves_ghost_member_refuted", "C05_conc_early_index_no_ghost_now", "C05_source_is_the_fixed_model", "C05_source_segment_layout", "C05_source_views_agree_at_quiescence", "C05_source_refusal_order"]


import serverlib as sl
import srvmon


def interleaved_histories(r, thorough):
    """requests of different connections interleaved at a suspended modulator notification (the scripted
    modulator parks the call): last-member-leaves racing a join, disconnect clean-up racing a join / re-identify.
    Outside the sequential model: judged by the quiescence audit (CHANNELS vs MEMBERS) only."""
    cases = []
    firsts = ["leave_last", "hangup_last", "leave_owner_with_others"]
    seconds = ["join_other", "join_on_behalf", "leave_other", "reidentify_join"]
    combos = [(a, b, rel) for a in firsts for b in seconds for rel in ("ok", "err")]
    if not thorough:
        combos = r.sample(combos, 8) + [("leave_last", "join_other", "ok"), ("hangup_last", "reidentify_join", "ok"), ("hangup_last", "reidentify_join", "err")]
    for first, second, rel in combos:
        cfg = sl.base_cfg(r, {"ops": ["fwd-event"], "proto": "P/1"})
        cfg.update({"max_clients": 10, "max_subs": 10, "max_conns": 16, "max_channels": 100, "max_inflight": 10})
        g = sl.Gen(r, cfg)
        def conn(k, u, chans):
            g.ops.append({"t": "open", "k": k})
            g.ops.append({"t": "send", "k": k, "bytes": sl.frame("CONNECT", [("version", 1), ("heartbeat_interval", 0)]).hex(), "script": []})
            g.ops.append({"t": "send", "k": k, "bytes": sl.frame("IDENTIFY", [("username", u)]).hex(), "script": []})
            for ch in chans:
                g.ops.append({"t": "send", "k": k, "bytes": sl.frame("JOIN", [("id", g.rid()), ("channel", ch)]).hex(), "script": []})
            g.conns[k] = {"phase": 2, "user": u}
        c1 = "!c1@localhost"
        conn(1, "alice", [c1])
        conn(2, "bob", [c1] if first == "leave_owner_with_others" else [])
        conn(3, "carol", ["!c2@localhost"])
        park = [{"park": 1}]
        if first == "hangup_last":
            g.ops.append({"t": "hangup", "k": 1, "script": park})
            del g.conns[1]
        else:
            g.ops.append({"t": "send", "k": 1, "bytes": sl.frame("LEAVE", [("id", g.rid()), ("channel", c1)]).hex(), "script": park})
        if second == "join_other":
            g.ops.append({"t": "send", "k": 3, "bytes": sl.frame("JOIN", [("id", g.rid()), ("channel", c1)]).hex(), "script": []})
        elif second == "join_on_behalf":
            g.ops.append({"t": "send", "k": 2, "bytes": sl.frame("JOIN", [("id", g.rid()), ("channel", c1), ("on_behalf", "carol@localhost")]).hex(), "script": []})
        elif second == "leave_other":
            g.ops.append({"t": "send", "k": 2, "bytes": sl.frame("LEAVE", [("id", g.rid()), ("channel", c1)]).hex(), "script": []})
        else:
            g.ops.append({"t": "open", "k": 4})
            g.ops.append({"t": "send", "k": 4, "bytes": sl.frame("CONNECT", [("version", 1), ("heartbeat_interval", 0)]).hex(), "script": []})
            g.ops.append({"t": "send", "k": 4, "bytes": sl.frame("IDENTIFY", [("username", "alice")]).hex(), "script": []})
            g.ops.append({"t": "send", "k": 4, "bytes": sl.frame("JOIN", [("id", g.rid()), ("channel", c1)]).hex(), "script": []})
            g.conns[4] = {"phase": 2, "user": "alice"}
        g.ops.append({"t": "release", "id": 1, "outcome": rel})
        g.ops.append({"t": "advance", "ms": 50})
        # every user that is connected now must be reachable by a pushed direct payload (C17), whatever was interleaved
        g.ops.append({"t": "m2s_direct", "targets": [u.encode().hex() for u in ("alice", "bob", "carol")], "payload": b"after-the-race".hex()})
        ops = g.ops + srvmon.audit_ops(g)
        cases.append({"cfg": cfg, "ops": ops, "nomodel": True})
    return cases


def parked_join_histories(r, thorough):
    """a JOIN suspended in its MEMBER_JOINED notification (the member is already inserted under the channel lock) while
    the joined user's connection goes away: the requester's own connection (the request is then cancelled mid-way) or, for
    an on-behalf JOIN, the target's.  Afterwards the user is a member of nothing in either view, and a later session under
    the same name inherits nothing.  Outside the sequential model: judged by the audit and the tracker's monitors."""
    cases = []
    variants = [("self", "ok"), ("self", "err"), ("onbehalf", "ok"), ("onbehalf", "err"), ("self_existing_member_publishes", "ok"), ("onbehalf", "ok")]
    for i in range(len(variants) * (3 if thorough else 1)):
        v, rel = variants[i % len(variants)]
        cfg = sl.base_cfg(r, {"ops": r.choice([["fwd-event"], ["fwd-broadcast-payload", "fwd-event"]]), "proto": "P/1"})
        cfg.update({"max_clients": 10, "max_subs": 10, "max_conns": 16, "max_channels": 100, "max_inflight": 10})
        g = sl.Gen(r, cfg)
        ks = sl._login(g, ["alice", "bob", "carol"])
        ch = "!c1@localhost"
        g.send(ks["alice"], sl.frame("JOIN", [("id", g.rid()), ("channel", ch)]), [])
        if r.random() < 0.5:
            g.send(ks["carol"], sl.frame("JOIN", [("id", g.rid()), ("channel", ch)]), [])
        if v.startswith("self"):
            g.ops.append({"t": "send", "k": ks["bob"], "bytes": sl.frame("JOIN", [("id", g.rid()), ("channel", ch)]).hex(), "script": [{"park": 1}]})
        else:
            g.ops.append({"t": "send", "k": ks["alice"], "bytes": sl.frame("JOIN", [("id", g.rid()), ("channel", ch), ("on_behalf", "bob@localhost")]).hex(), "script": [{"park": 1}]})
        g.ops.append({"t": "hangup", "k": ks["bob"], "script": []})
        del g.conns[ks["bob"]]
        g.ops.append({"t": "release", "id": 1, "outcome": rel})
        g.ops.append({"t": "advance", "ms": 50})
        # a namesake signs in: it joined nothing
        k = g.next_k
        g.next_k += 1
        g.ops.append({"t": "open", "k": k})
        g.ops.append({"t": "send", "k": k, "bytes": sl.frame("CONNECT", [("version", 1), ("heartbeat_interval", 0)]).hex(), "script": []})
        g.ops.append({"t": "send", "k": k, "bytes": sl.frame("IDENTIFY", [("username", "bob")]).hex(), "script": []})
        g.conns[k] = {"phase": 2, "user": "bob"}
        g.ops.append({"t": "send", "k": ks["alice"], "bytes": sl.frame("BROADCAST", [("id", g.rid()), ("channel", ch), ("length", 6), ("qos", 1)], b"secret").hex(), "script": []})
        ops = g.ops + srvmon.audit_ops(g)
        cases.append({"cfg": cfg, "ops": ops, "nomodel": True})
    return cases


def orphan_join_histories(r, thorough):
    """a JOIN that waits for a channel's lock while that channel is released (its creator's JOIN is rolled back after a
    failed announcement, or its last member leaves) and, in the same scheduler tick, another request creates a channel of
    the same name (`batch`: the third JOIN's bytes and the modulator's answer are queued back to back, in either order).
    Whoever got a JOIN_ACK must be a member in both views afterwards (fix 8cc81f1: the waiting JOIN used to be admitted to
    the released channel object).  Outside the sequential model: judged by the audit."""
    cases = []
    variants = [(cause, order, third) for cause in ("creator_rollback", "last_leaves", "last_hangs_up") for order in ("send_first", "release_first")
                for third in ("join", "join_then_publish")]
    if not thorough:
        variants = [v for v in variants if v[1] == "send_first"] + r.sample([v for v in variants if v[1] != "send_first"], 2)
    for cause, order, third in variants:
        cfg = sl.base_cfg(r, {"ops": ["fwd-event"], "proto": "P/1"})
        cfg.update({"max_clients": 10, "max_subs": 10, "max_conns": 16, "max_channels": 100, "max_inflight": 10})
        g = sl.Gen(r, cfg)
        ks = sl._login(g, ["alice", "bob", "carol"])
        ch = "!c1@localhost"
        if cause == "creator_rollback":
            # alice creates c1: the announcement is parked while she holds the new channel's lock
            g.ops.append({"t": "send", "k": ks["alice"], "bytes": sl.frame("JOIN", [("id", g.rid()), ("channel", ch)]).hex(), "script": [{"park": 1}]})
            rel = {"a": "release", "id": 1, "outcome": "err"}
        else:
            g.send(ks["alice"], sl.frame("JOIN", [("id", g.rid()), ("channel", ch)]), [])
            if cause == "last_leaves":
                g.ops.append({"t": "send", "k": ks["alice"], "bytes": sl.frame("LEAVE", [("id", g.rid()), ("channel", ch)]).hex(), "script": [{"park": 1}]})
            else:
                g.ops.append({"t": "hangup", "k": ks["alice"], "script": [{"park": 1}]})
                del g.conns[ks["alice"]]
            rel = {"a": "release", "id": 1, "outcome": r.choice(["ok", "err"])}
        # bob joins c1: waits for the channel lock
        g.ops.append({"t": "send", "k": ks["bob"], "bytes": sl.frame("JOIN", [("id", g.rid()), ("channel", ch)]).hex(), "script": []})
        j3 = {"a": "send", "k": ks["carol"], "bytes": sl.frame("JOIN", [("id", g.rid()), ("channel", ch)]).hex()}
        g.ops.append({"t": "batch", "acts": [j3, rel] if order == "send_first" else [rel, j3], "script": []})
        g.ops.append({"t": "advance", "ms": 50})
        if cause == "creator_rollback" and ks["alice"] in g.conns:
            del g.conns[ks["alice"]]     # INTERNAL_SERVER_ERROR closes the creator's connection
        if third == "join_then_publish":
            g.ops.append({"t": "send", "k": ks["carol"], "bytes": sl.frame("BROADCAST", [("id", g.rid()), ("channel", ch), ("length", 5), ("qos", 1)], b"hello").hex(), "script": []})
        ops = g.ops + srvmon.audit_ops(g)
        cases.append({"cfg": cfg, "ops": ops, "nomodel": True})
    return cases


def run(tier, replay=None):
    return srvprops.run(PROP, THEOREMS, tier, replay, extra_gen=lambda r, th: interleaved_histories(r, th) + parked_join_histories(r, th) + orphan_join_histories(r, th) + sl.kick_histories(r, th) + sl.stalled_drop_histories(r, th) + sl.cut_histories(r, th) + sl.oversize_histories(r, th) + sl.failed_event_histories(r, th),
                        rule_note="plus parked-JOIN histories (a JOIN suspended in its notification while the joined user's connection goes away: no ghost membership, a namesake inherits nothing); plus interleaved histories: a LEAVE / disconnect clean-up suspended in its modulator notification while another connection joins, leaves or re-identifies; judged by the CHANNELS-vs-MEMBERS audit; plus members that stop reading and vanish while the server is blocked writing to them (connection ends through the write-error path); plus a member's request stream cut at sampled (thorough: all) byte offsets followed by the drop of the connection; plus small message buffers with long names, where unsolicited frames that do not fit end the receiving connection (compared with Model/ServerX.step_x); plus directed failed-notification histories (the modulator's event forwarding fails exactly on a MEMBER_LEFT: member leaves, owner removes a member, last member leaves and the channel is re-created, disconnect clean-up); plus directed removal histories: an owner removes a member with LEAVE on_behalf, then drops / fills its own limit / the removed member re-joins up to its limit / a namesake reconnects and probes ownership; ends with the CHANNELS-vs-MEMBERS audit (members must be alive)")
