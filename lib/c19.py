"""C19 — buffer pools hand out each buffer exclusively and always get it back."""
import json

from common import (coqchk, Rng, assumptions, coq_bytes, coq_eval, coq_make, harness_build, hygiene, load_known, log, regen,
                    run_harness, seed, write_evidence, write_replay, TRUSTED_BASE)

PROP = "C19"
THEOREMS = ["C19_model_smoke", "C19_invariant_every_interleaving", "C19_no_underflow", "C19_conservation", "C19_exclusive", "C19_mut_unshared",
            "C19_frozen_bytes_constant", "C19_write_needs_mut", "C19_all_returned", "C19_blocks_only_if_empty", "C19_release_batch",
            "C19_bucket_choice", "C19_waits_although_buffer_available_refuted", "C19_source_statement_order",
            "C19_all_connections_ended_all_message_buffers_back", "C19_ending_connection_returns_what_it_held", "C19_source_batch_released_after_the_write"]
PRELUDE = "From NW Require Import Base.Bytes Model.PoolTok Conf.CodecConf Conf.PoolConf.\n"


def gen_pool_case(r, nops):
    count = r.choice([1, 2, 3, 5])
    avail = list(range(count))
    handles = []     # dict(kind, id, alive)
    refs = {}
    content = {}
    ops, terms = [], []
    for _ in range(nops):
        live_mut = [i for i, h in enumerate(handles) if h["alive"] and h["kind"] == "mut"]
        live_sh = [i for i, h in enumerate(handles) if h["alive"] and h["kind"] == "sh"]
        x = r.random()
        if x < 0.3 or not (live_mut or live_sh):
            ops.append({"op": "acquire"})
            terms.append("(OAcquire, None)")
            if avail:
                i = avail.pop(0)
                handles.append({"kind": "mut", "id": i, "alive": True})
        elif x < 0.42 and live_mut:
            h = r.choice(live_mut)
            b = bytes(r.randrange(256) for _ in range(16))
            content[handles[h]["id"]] = b
            ops.append({"op": "write", "h": h, "bytes": b.hex()})
            terms.append("(OWrite %d%%nat %s, None)" % (handles[h]["id"], coq_bytes(b)))
        elif x < 0.55 and live_mut:
            h = r.choice(live_mut)
            handles[h]["kind"] = "sh"
            refs[handles[h]["id"]] = 1
            ops.append({"op": "freeze", "h": h})
            terms.append("(OFreeze %d%%nat, None)" % handles[h]["id"])
        elif x < 0.67 and live_sh:
            h = r.choice(live_sh)
            i = handles[h]["id"]
            refs[i] += 1
            handles.append({"kind": "sh", "id": i, "alive": True})
            ops.append({"op": "clone", "h": h})
            terms.append("(OClone %d%%nat, None)" % i)
        elif x < 0.75 and (live_mut or live_sh):
            h = r.choice(live_mut + live_sh)
            i = handles[h]["id"]
            ops.append({"op": "read", "h": h, "n": 16, "expect": content.get(i, bytes(16)).hex(), "frozen": handles[h]["kind"] == "sh"})
            terms.append("(ORelease [], Some (%d%%nat, 16%%nat))" % i)
        elif x < 0.9 and (live_mut or live_sh):
            h = r.choice(live_mut + live_sh)
            i = handles[h]["id"]
            handles[h]["alive"] = False
            ops.append({"op": "drop", "h": h})
            if handles[h]["kind"] == "mut":
                terms.append("(ODropMut %d%%nat, None)" % i)
                avail.append(i)
            else:
                terms.append("(ODropShared %d%%nat, None)" % i)
                refs[i] -= 1
                if refs[i] == 0:
                    avail.append(i)
        elif live_sh:
            hs = r.sample(live_sh, r.randint(1, len(live_sh)))
            ids = []
            for h in hs:
                i = handles[h]["id"]
                handles[h]["alive"] = False
                ids.append(i)
                refs[i] -= 1
                if refs[i] == 0:
                    avail.append(i)
            ops.append({"op": "release", "hs": hs})
            terms.append("(ORelease [%s], None)" % ";".join("%d%%nat" % i for i in ids))
        else:
            ops.append({"op": "acquire"})
            terms.append("(OAcquire, None)")
            if avail:
                i = avail.pop(0)
                handles.append({"kind": "mut", "id": i, "alive": True})
    # drop everything at the end
    for h, hd in enumerate(handles):
        if hd["alive"]:
            i = hd["id"]
            hd["alive"] = False
            ops.append({"op": "drop", "h": h})
            if hd["kind"] == "mut":
                terms.append("(ODropMut %d%%nat, None)" % i)
            else:
                terms.append("(ODropShared %d%%nat, None)" % i)
    return {"count": count, "size": 64, "ops": ops}, terms


def gen_bucketed_case(r, nops):
    mn = 64
    mx = r.choice([64, 128, 256, 200, 512])
    budget = r.choice([200, 600, 2000, 1 << 14])
    cap = r.choice([1, 2, 5])
    # mirror of the geometry (sizes ascending; top bucket = max if off the ladder)
    sizes = []
    c = mn
    while c <= mx:
        sizes.append(c)
        c *= 2
    if sizes[-1] < mx:
        sizes.append(mx)
    geo = []
    rem = budget
    for idx, s in enumerate(reversed(sizes)):
        last = idx == len(sizes) - 1
        target = rem if last else min(rem // 2, rem)
        cnt = min(target // s, cap)
        if cnt > 0:
            geo.append([s, cnt])
            rem -= cnt * s
    geo.sort()
    free = [g[1] for g in geo]
    ops, terms, holders = [], [], []
    for _ in range(nops):
        if r.random() < 0.65 or not any(h is not None for h in holders):
            size = r.choice([1, 64, 65, 100, 128, 129, 200, 256, 257, 512, 513])
            bs = "[" + ";".join("(%d, %d%%nat)" % (g[0], f) for g, f in zip(geo, free)) + "]"
            ops.append({"op": "acquire", "size": size})
            terms.append((bs, size))
            suitable = [i for i, g in enumerate(geo) if g[0] >= size]
            got = next((i for i in suitable if free[i] > 0), None)
            if got is not None:
                free[got] -= 1
                holders.append(got)
            # parked / none: no handle
        else:
            hidx = r.choice([i for i, h in enumerate(holders) if h is not None])
            free[holders[hidx]] += 1
            holders[hidx] = None
            ops.append({"op": "drop", "h": hidx})
            terms.append(None)
    return {"bucketed": True, "min": mn, "max": mx, "budget": budget, "cap": cap, "ops": ops}, terms


def run(tier, replay=None):
    thorough = tier == "thorough"
    r = Rng(seed())
    broken = []
    ok_tr, tr_out = regen()
    if not ok_tr:
        broken.append("translator: " + tr_out)
    hyg = hygiene()
    if hyg:
        broken.append("forbidden vernacular: " + "; ".join(hyg))
    ok_model, mk1 = coq_make(["Conf/PoolConf.vo"])
    ok_props, mk2 = coq_make(["Props/C19.vo"]) if ok_model else (False, mk1)
    closed = {}
    if ok_props:
        closed, aout = assumptions(PROP, THEOREMS, "Props.C19")
        if closed is None:
            ok_props, mk2, closed = False, aout, {}
    if not ok_props:
        broken.append("Props/C19.vo does not compile: " + (mk2 or "")[-1500:])
    elif [t for t in THEOREMS if closed.get(t) != "closed"]:
        broken.append("not closed under the global context: %s" % [t for t in THEOREMS if closed.get(t) != "closed"])
    if thorough and ok_props:
        okc, summ = coqchk(PROP)
        if not okc:
            broken.append("independent checker: " + summ)
    for prof in ("debug", "release"):
        okb, bout = harness_build(prof)
        if not okb:
            rp = write_replay(PROP, "harness_build", {"what": "harness does not build against /repo", "log": bout[-4000:]})
            write_evidence(PROP, tier, {"obligations": len(THEOREMS), "discharged": 0, "checker_cmd": "make", "trusted_base": TRUSTED_BASE}, [], 1)
            print(f"VIOLATION property={PROP} replay={rp} no-failing-input-found")
            return 1
    known = {k["id"]: k for k in load_known(PROP)}
    known_seen = {}
    violations, disagreements = [], []
    stats = {"pool_cases": 0, "bucketed_cases": 0, "ops": {}, "parked_acquires": 0, "reads_of_frozen": 0}
    distinct = set()

    def search(n, tag, rr):
        cases, tms = [], []
        if replay:
            with open(replay) as f:
                rj = json.load(f)
            cases, tms = rj.get("cases", []), rj.get("terms", [])
        else:
            for i in range(n):
                if i % 4 == 3:
                    c, t = gen_bucketed_case(rr, rr.randint(5, 25))
                else:
                    c, t = gen_pool_case(rr, rr.randint(5, 40))
                cases.append(c)
                tms.append(t)
        # contention on a multi-threaded runtime (supporting evidence for the interleaving theorems; found nothing = no claim)
        if not replay:
            cont = [{"contend": True, "count": cnt, "tasks": tk, "rounds": 6000 if not thorough else 40000} for cnt, tk in ((1, 8), (2, 6), (3, 12))]
            cobs, chout = run_harness("pool", cont, "release", tag=tag + "cont", timeout=600)
            if cobs is None:
                violations.append(("pool contention run crashed or hung: " + chout[-300:], cont[0], None))
            else:
                stats["contention_runs"] = stats.get("contention_runs", 0) + len(cont)
                for cc, co in zip(cont, cobs):
                    if co.get("panics") or co.get("hung") or co.get("available") != cc["count"] or co.get("in_use") != 0:
                        violations.append((f"contended hand-over of {cc['count']} buffer(s) between {cc['tasks']} tasks: {co.get('panics')} acquirers panicked, hung={co.get('hung')}, afterwards available={co.get('available')} in_use={co.get('in_use')}", cc, None))
        # the pool as the connection engine uses it: a reader that stalls with a write pending while other connections cycle
        # the whole message pool, then reads on — the bytes of its pending frames must not have changed under it
        if not replay:
            import serverlib as sl
            import srvmon
            sr = sl.stalled_resume_histories(r, thorough)
            sobs, sout = sl.run_histories(sr, "debug", tag="c19sr", timeout=900)
            if sobs is None:
                violations.append(("stalled-reader histories crashed or hung: " + sout[-300:], sr[0], None))
            else:
                stats["stalled_reader_histories"] = len(sr)
                for c2, ob2 in zip(sr, sobs):
                    for (tg, what, t2) in srvmon.stalled_resume_check(c2, ob2):
                        violations.append(("a buffer changed (or went to another holder) while a pending write still held it: " + what, c2, t2))
        terms = []
        for prof in ("debug", "release"):
            obs, hout = run_harness("pool", cases, prof, tag=tag, timeout=600)
            if obs is None:
                violations.append(("pool harness crashed or hung: " + hout[-300:], cases[0] if cases else {}, None))
                return
            for c, t, o in zip(cases, tms, obs):
                if o.get("panic"):
                    violations.append((f"pool operation panicked ({prof})", c, t))
                    terms.append("true")
                    continue
                key = json.dumps(c["ops"], sort_keys=True)
                distinct.add(key)
                if c.get("bucketed"):
                    stats["bucketed_cases"] += 1
                    sub = []
                    for op, tm, ob in zip(c["ops"], t, o["ops"]):
                        if tm is None:
                            continue
                        bs, size = tm
                        if ob.get("parked"):
                            stats["parked_acquires"] += 1
                            ot = "BParked"
                        elif ob.get("none"):
                            ot = "BNone"
                            # refused although some bucket is large enough: an in-range request must get a buffer or wait
                            geo_sizes = [int(x.split(",")[0].strip("( ")) for x in bs.strip("[]").split(";") if x]
                            if geo_sizes and size <= max(geo_sizes):
                                violations.append((f"acquire({size}) was refused (None) although a bucket of {max(geo_sizes)} bytes exists: an in-range request must be served or wait ({prof})", c, t))
                        else:
                            ot = "(BGot %d)" % ob["len"]
                            if ob["len"] < size:
                                violations.append((f"acquire({size}) returned a buffer of only {ob['len']} bytes ({prof})", c, t))
                        sub.append("bucket_conf %s %d %s" % (bs, size, ot))
                    terms.append("(" + " && ".join(sub or ["true"]) + ")")
                    continue
                stats["pool_cases"] += 1
                obst = []
                for op, ob in zip(c["ops"], o["ops"]):
                    stats["ops"][op["op"]] = stats["ops"].get(op["op"], 0) + 1
                    if ob["in_use"] + ob["available"] != c["count"]:
                        violations.append((f"available + in-use = {ob['in_use']}+{ob['available']} != capacity {c['count']} ({prof})", c, t))
                    got = "None"
                    if op["op"] == "acquire":
                        if ob.get("parked"):
                            stats["parked_acquires"] += 1
                            got = "(Some None)"
                            if ob["available"] > 0:
                                violations.append((f"acquire parked although {ob['available']} buffers are available ({prof})", c, t))
                        else:
                            got = "(Some (Some %d%%nat))" % ob["id"]
                    rd = "None"
                    if op["op"] == "read" and "bytes" in ob:
                        rd = "(Some %s)" % coq_bytes(bytes.fromhex(ob["bytes"]))
                        if op.get("frozen"):
                            stats["reads_of_frozen"] += 1
                        if ob["bytes"] != op["expect"]:
                            violations.append((f"buffer bytes changed while held: read {ob['bytes']} expected {op['expect']} ({prof})", c, t))
                    obst.append("PO %d%%nat %d%%nat %s %s" % (ob["in_use"], ob["available"], got, rd))
                if o["final_available"] != c["count"] or o["final_in_use"] != 0:
                    violations.append((f"after every holder dropped its buffers only {o['final_available']} of {c['count']} are available ({prof})", c, t))
                terms.append("pool_conf (init_pool %d%%nat) [%s] [%s]" % (c["count"], ";".join(t), ";".join(obst)))
        if ok_model:
            bad, cout = coq_eval(PRELUDE, terms, kind="bool", tag=tag + "c")
            if bad is None:
                broken.append("correspondence could not be evaluated: " + cout[-600:])
            else:
                for j in bad:
                    i = j % len(cases)
                    disagreements.append({"case": cases[i], "terms": tms[i]})

    search(1200 if thorough else 160, "q", r)
    if (broken or disagreements) and not violations and not replay:
        log("proof/correspondence broken; extended search")
        search(1500, "x", Rng(seed() + 7919))
    # K19a witness: a task parked on the largest suitable bucket is not served by a release into a smaller one
    wit = [{"bucketed": True, "min": 100, "max": 200, "budget": 450, "cap": 1,
            "ops": [{"op": "acquire", "size": 100}, {"op": "acquire", "size": 100}, {"op": "acquire", "size": 100}]}]
    wobs, _ = run_harness("pool", wit, "debug", tag="k19a", timeout=120)
    if wobs and not wobs[0].get("panic") and wobs[0]["ops"][2].get("parked") and "K19a" in known:
        known_seen["K19a"] = wit[0]

    coverage = {
        "obligations": len(THEOREMS), "discharged": len([t for t in THEOREMS if closed.get(t) == "closed"]),
        "checker_cmd": "python3 translator/gen.py && make -C coq -j16 Props/C19.vo Conf/PoolConf.vo && coqc work/assm_C19.v",
        "trusted_base": TRUSTED_BASE, "theorems": THEOREMS, "print_assumptions": closed,
        "evaluations": stats["pool_cases"] + stats["bucketed_cases"], "distinct_nontrivial": len(distinct),
        "rule": "random op sequences (acquire polled once, write, freeze, clone, drop, batch release, read) on the real Pool with 1-5 buffers, and acquire/drop sequences on the real BucketedPool for several geometries, debug and release; after every op in_use/available, the buffer handed out and buffer contents are compared with the model in coqc; distinct = distinct op lists",
        "traces_validated_against_impl": stats["pool_cases"] + stats["bucketed_cases"], "disagreements": len(disagreements),
        "distribution": stats, "samples": [], "known_findings_reproduced": sorted(known_seen), "exhaustive": False,
    }
    assum = ["atomicity (linearizability) of crossbeam ArrayQueue and tokio Semaphore operations, Arc::try_unwrap and absence of data races in BytesMut are assumed: the theorems quantify over interleavings of these atomic micro-steps",
             "the harness exercises the real pool from one thread (micro-steps of one op run to completion); multi-thread interleavings are covered by the theorem only"]
    if violations:
        what, c, t = violations[0]
        rp = write_replay(PROP, "violation", {"what": what, "cases": [c], "terms": [t], "all": [w for w, _, _ in violations[:20]], "broken": broken})
        write_evidence(PROP, tier, coverage, assum, len(violations))
        print(f"VIOLATION property={PROP} replay={rp}")
        log(what)
        return 1
    if broken or disagreements:
        rp = write_replay(PROP, "broken", {"what": "no failing input found; the following no longer checks", "broken": broken,
                                           "correspondence": "Conf/PoolConf.pool_conf / bucket_conf",
                                           "cases": [d["case"] for d in disagreements[:5]], "terms": [d["terms"] for d in disagreements[:5]]})
        write_evidence(PROP, tier, coverage, assum, 1)
        print(f"VIOLATION property={PROP} replay={rp} no-failing-input-found")
        return 1
    for kid in sorted(known):
        if kid in known_seen:
            print(f"KNOWN-FINDING: property={PROP} {kid} {known[kid]['what']}")
    write_evidence(PROP, tier, coverage, assum, 0)
    return 0
