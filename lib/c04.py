"""C04 — decided on the server model; see lib/srvprops.py and coq/Props/C04.v"""
import srvprops

PROP = "C04"
THEOREMS = ["C04_owner_and_member_gates", "C04_single_owner_reachable"]


def run(tier, replay=None):
    return srvprops.run(PROP, THEOREMS, tier, replay)
