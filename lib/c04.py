"""C04 — decided on the server model; see lib/srvprops.py and coq/Props/C04.v"""
import serverlib as sl
import srvprops

PROP = "C04"
THEOREMS = ["C04_owner_and_member_gates", "C04_single_owner_reachable"]


def run(tier, replay=None):
    return srvprops.run(PROP, THEOREMS, tier, replay, extra_gen=sl.kick_histories, rule_note=' plus directed removal histories: an owner removes a member with LEAVE on_behalf, then drops / fills its own limit / the removed member re-joins up to its limit / a namesake reconnects and probes ownership; ends with the CHANNELS-vs-MEMBERS audit (members must be alive)')
