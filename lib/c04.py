"""C04 — decided on the server model; see lib/srvprops.py and coq/Props/C04.v"""
import srvprops

PROP = "C04"
THEOREMS = ["C04_model_smoke"]


def run(tier, replay=None):
    return srvprops.run(PROP, THEOREMS, tier, replay)
