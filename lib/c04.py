"""C04 — decided on the server model; see lib/srvprops.py and coq/Props/C04.v"""
import serverlib as sl
import srvprops

PROP = "C04"
THEOREMS = ["C04_owner_and_member_gates", "C04_single_owner_reachable", "C04_conc_owner_is_member_always", "C04_source_owner_is_member", "C04_source_segment_layout"]


def run(tier, replay=None):
    return srvprops.run(PROP, THEOREMS, tier, replay, extra_gen=lambda r, th: sl.kick_histories(r, th) + sl.retry_identify_histories(r, th) + sl.onbehalf_drop_histories(r, th), rule_note=' plus on-behalf-then-drop histories (a user joined on behalf by the owner drops its connection: it is gone from the channel, ownership only goes to live members, a namesake inherits nothing; the CHANNELS-vs-MEMBERS audit counts here); plus retried-IDENTIFY histories (a connection refused under a live user\'s name identifies under a free one and then administers / observes that user\'s channel: must be refused as the outsider it is); plus directed removal histories: an owner removes a member with LEAVE on_behalf, then drops / fills its own limit / the removed member re-joins up to its limit / a namesake reconnects and probes ownership; ends with the CHANNELS-vs-MEMBERS audit (members must be alive)')
