"""C03 — channel ACL decisions agree with the reported ACL (Props/C03.v, Proofs/AclProofs.v)."""
import serverlib as sl
import srvprops

PROP = "C03"
THEOREMS = ["C03_reachable_wf", "C03_decision_is_reported_list", "C03_add_present", "C03_remove_absent",
            "C03_total_counts_reported", "C03_lists_independent", "C03_delivery_uses_read_acl"]


def acl_histories(r, thorough):
    return sl.acl_histories(r, thorough) + sl.two_list_histories(r, thorough)


def run(tier, replay=None):
    return srvprops.run(PROP, THEOREMS, tier, replay, extra_gen=acl_histories,
                        rule_note="plus directed ACL histories: random add/remove batches on one list, read back, probed by every user")
