"""C03 — decided on the server model; see lib/srvprops.py and coq/Props/C03.v"""
import srvprops

PROP = "C03"
THEOREMS = ["C03_model_smoke"]


def run(tier, replay=None):
    return srvprops.run(PROP, THEOREMS, tier, replay)
