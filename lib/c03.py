"""C03 — channel ACL decisions agree with the reported ACL (Props/C03.v, Proofs/AclProofs.v)."""
import serverlib as sl
import srvprops

PROP = "C03"
THEOREMS = ["C03_reachable_wf", "C03_decision_is_reported_list", "C03_add_present", "C03_remove_absent",
            "C03_total_counts_reported", "C03_lists_independent", "C03_delivery_uses_read_acl", "C03_conc_acl_report_is_current", "C03_conc_set_acl_exact", "C03_conc_join_respects_list", "C03_conc_targets_cache", "C03_source_segment_layout"]


def emptied_list_histories(r, thorough):
    """a list that excluded a member is emptied again by acknowledged removals (an empty list permits everybody) and read
    back; a broadcast follows at once, before any JOIN / LEAVE: every member the reported list permits receives it.
    Also the mirror image for narrowing: a member removed from a non-empty read list stops receiving at once."""
    cases = []
    for i in range(24 if thorough else 6):
        cfg = sl.base_cfg(r, None)
        cfg.update({"max_clients": 10, "max_subs": 10, "max_conns": 16, "max_channels": 100, "max_inflight": 10})
        g = sl.Gen(r, cfg)
        ks = sl._login(g, ["alice", "bob", "carol", "dave"])
        ch = r.choice(sl.CHANNELS)
        for u in ("alice", "bob", "carol", "dave"):
            g.send(ks[u], sl.frame("JOIN", [("id", g.rid()), ("channel", ch)]), [])
        live = [ks[u] for u in ("alice", "bob", "carol", "dave")]
        ty = "read"
        listed = r.sample(["alice", "bob", "carol", "dave"], r.choice([1, 2, 3]))
        if "alice" not in listed and r.random() < 0.5:
            listed.append("alice")
        def setacl(action, names):
            g.send(ks["alice"], sl.frame("SET_CHAN_ACL", [("id", g.rid()), ("channel", ch), ("type", ty), ("action", action), ("nids", [n + "@localhost" for n in names])]), [])
        def report():
            g.send(ks["alice"], sl.frame("GET_CHAN_ACL", [("id", g.rid()), ("channel", ch), ("type", ty)]), [])
        def publish(k):
            g.send(k, sl.frame("BROADCAST", [("id", g.rid()), ("channel", ch), ("length", 5), ("qos", 1)], b"probe"), [])
            g.ops[-1]["members_live"] = list(live)
        setacl("add", listed)
        report()
        publish(ks["alice"])
        # take the entries away again, in one batch or one by one, in a random order
        order = listed[:]
        r.shuffle(order)
        if i % 3 == 0:
            setacl("remove", order)
        else:
            for n in order:
                setacl("remove", [n])
                if r.random() < 0.4:
                    report()
                    publish(r.choice(live))
        report()
        publish(ks["alice"])
        publish(ks[r.choice(["bob", "carol"])])
        cases.append({"cfg": cfg, "ops": g.ops})
    return cases


def acl_histories(r, thorough):
    return sl.acl_histories(r, thorough) + sl.two_list_histories(r, thorough) + emptied_list_histories(r, thorough)


def run(tier, replay=None):
    return srvprops.run(PROP, THEOREMS, tier, replay, extra_gen=acl_histories,
                        rule_note="plus directed ACL histories: random add/remove batches on one list, read back, probed by every user; plus emptied-list histories (a read list that excluded members is emptied again by acknowledged removals, read back, and a broadcast follows at once: every member the reported list permits receives it)")
