"""C03 — channel ACL decisions agree with the reported ACL (Props/C03.v, Proofs/AclProofs.v)."""
import serverlib as sl
import srvprops

PROP = "C03"
THEOREMS = ["C03_reachable_wf", "C03_decision_is_reported_list", "C03_add_present", "C03_remove_absent",
            "C03_total_counts_reported", "C03_lists_independent", "C03_delivery_uses_read_acl"]


def acl_histories(r, thorough):
    """directed: an owner edits one ACL type with random batches, reads it back, then every user probes it"""
    cases = []
    for _ in range(60 if thorough else 12):
        cfg = sl.base_cfg(r, None)
        cfg.update({"max_clients": 10, "max_subs": 10, "max_conns": 16})
        g = sl.Gen(r, cfg)
        ks = {}
        for u in sl.USERS:
            k = g.next_k
            g.next_k += 1
            g.ops.append({"t": "open", "k": k})
            g.send(k, sl.frame("CONNECT", [("version", 1), ("heartbeat_interval", 0)]))
            g.send(k, sl.frame("IDENTIFY", [("username", u)]))
            g.conns[k] = {"phase": 2, "user": u}
            ks[u] = k
        ch = "!c1@localhost"
        owner = ks["alice"]
        g.send(owner, sl.frame("JOIN", [("id", g.rid()), ("channel", ch)]))
        ty = r.choice(["join", "publish", "read"])
        if ty != "join":
            for u in ("bob", "carol"):
                g.send(ks[u], sl.frame("JOIN", [("id", g.rid()), ("channel", ch)]))
        for _ in range(r.randint(1, 5)):
            nids = [r.choice(sl.ACL_NIDS[:8]) for _ in range(r.choice([1, 1, 2, 3]))]
            g.send(owner, sl.frame("SET_CHAN_ACL", [("id", g.rid()), ("channel", ch), ("type", ty),
                                                    ("action", r.choice(["add", "add", "remove"])), ("nids", nids)]))
            g.send(owner, sl.frame("GET_CHAN_ACL", [("id", g.rid()), ("channel", ch), ("type", ty)]))
        for u in sl.USERS[1:]:
            if ty == "join":
                g.send(ks[u], sl.frame("JOIN", [("id", g.rid()), ("channel", ch)]))
            elif ty == "publish":
                g.send(ks[u], sl.frame("BROADCAST", [("id", g.rid()), ("channel", ch), ("length", 3)], b"abc"))
        if ty == "read":
            g.send(owner, sl.frame("BROADCAST", [("id", g.rid()), ("channel", ch), ("length", 3)], b"xyz"))
        if ty == "join":
            g.send(owner, sl.frame("JOIN", [("id", g.rid()), ("channel", ch), ("on_behalf", "dave@localhost")]))
        cases.append({"cfg": cfg, "ops": g.ops})
    return cases


def run(tier, replay=None):
    return srvprops.run(PROP, THEOREMS, tier, replay, extra_gen=acl_histories,
                        rule_note="plus directed ACL histories: random add/remove batches on one list, read back, probed by every user")
