#!/usr/bin/env python3
"""manifest_tool.py claim <ID> <level text> <level note> <technique>   |   unclaim <ID> <reason>"""
import json, sys, os
P = os.path.join(os.path.dirname(os.path.dirname(os.path.abspath(__file__))), "MANIFEST.json")
m = json.load(open(P))
cmd, pid = sys.argv[1], sys.argv[2]
m["checks"] = [c for c in m["checks"] if c["property_id"] != pid]
m["not_applicable"] = [c for c in m.get("not_applicable", []) if c["property_id"] != pid]
if cmd == "claim":
    text, note, tech = sys.argv[3:6]
    m["checks"].append({"property_id": pid, "quick_cmd": f"bin/check {pid} --tier quick", "thorough_cmd": f"bin/check {pid} --tier thorough",
                        "evidence_file": f"evidence/{pid}.json", "replay_cmd_template": f"bin/check {pid} --replay {{path}}",
                        "engine": "coq-model+correspondence",
                        "level_claimed": {"category": "proof", "text": text, "design_ref": f"DESIGN.md 4/{pid}"},
                        "level_note": note, "technique": tech})
else:
    m["not_applicable"].append({"property_id": pid, "reason": sys.argv[3]})
m["checks"].sort(key=lambda c: c["property_id"])
m["not_applicable"].sort(key=lambda c: c["property_id"])
json.dump(m, open(P, "w"), indent=1)
