"""C17 — decided on the server model; see lib/srvprops.py and coq/Props/C17.v"""
import srvprops

PROP = "C17"
THEOREMS = ["C17_model_smoke"]


def run(tier, replay=None):
    return srvprops.run(PROP, THEOREMS, tier, replay)
