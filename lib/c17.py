"""C17 — decided on the server model; see lib/srvprops.py and coq/Props/C17.v"""
import srvprops

PROP = "C17"
THEOREMS = ["C17_direct_outputs_exact", "C17_direct_once_per_connection", "C17_direct_only_listed_users", "C17_client_direct_forwarded", "C17_client_direct_ack_iff_valid", "C17_m2s_direct_exact", "C17_source_no_lossy_map_lookup", "C17_conc_direct_exact"]


LINK_NOTE = "Modulator-link stage: the real S2M/M2S dispatchers (crates/modulator/src/conn.rs) behind the real connection engine are fed raw byte chunks (handshakes with right/wrong/missing secret and version, the whole three-link vocabulary in each phase, payloads, scripted modulator outcomes) and compared chunk by chunk with Model/Link.v inside coqc (Conf/LinkConf.link_conf); the real S2mClient (crates/modulator/src/client.rs) is run against a scripted wire peer (sensible, contradictory, mis-correlated, malformed, missing replies, dropped links) and each call's result is compared with Model/Link.v's reply mapping (Conf/LinkConf.client_conf); a share of the server histories runs with the real S2M/M2S wire path between server and modulator (unix sockets)."


def contention_stage(thorough, violations, stats):
    """a pushed direct message is routed while another thread registers / unregisters connections in the same table shard:
    every routed payload is delivered (supporting evidence for what no single-threaded history can reach)"""
    import c02
    mine = []
    c02.router_contention(thorough, mine, stats)
    for (_, what, case, t) in mine:
        violations.append((PROP, what, case, t))


def run(tier, replay=None):
    import c05
    return srvprops.run(PROP, THEOREMS, tier, replay, extra_gen=c05.interleaved_histories, link=("link", "client"), extra_stage=contention_stage, rule_note=LINK_NOTE + " Plus interleaved histories (a clean-up suspended in the modulator while the same name signs in again, joins and leaves race) ending with a pushed direct payload to every user.")
