"""C17 — decided on the server model; see lib/srvprops.py and coq/Props/C17.v"""
import srvprops

PROP = "C17"
THEOREMS = ["C17_direct_outputs_exact", "C17_direct_once_per_connection", "C17_direct_only_listed_users", "C17_client_direct_forwarded", "C17_client_direct_ack_iff_valid"]


def run(tier, replay=None):
    return srvprops.run(PROP, THEOREMS, tier, replay)
