"""C06 — decided on the server model; see lib/srvprops.py and coq/Props/C06.v"""
import srvprops

PROP = "C06"
THEOREMS = ["C06_model_smoke"]


def run(tier, replay=None):
    return srvprops.run(PROP, THEOREMS, tier, replay)
