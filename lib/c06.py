"""C06 — decided on the server model; see lib/srvprops.py and coq/Props/C06.v"""
import srvprops

PROP = "C06"
THEOREMS = ["C06_preauth_is_inert", "C06_phase_monotone", "C06_no_reidentify", "C06_conns_wf_reachable", "C06_link_preauth_inert", "C06_link_phase_monotone", "C06_link_closed_is_final", "C06_link_stream_no_act_before_handshake", "C06_link_wrong_or_missing_secret_refused", "C06_undeclared_operation_never_sent", "C06_src_c2s_connecting_unlisted_refused", "C06_src_c2s_connected_unlisted_refused", "C06_src_c2s_authenticated_unlisted_refused", "C06_src_c2s_listed_handled", "C06_src_c2s_preauth_listed_handled", "C06_src_s2m_connecting_unlisted_refused", "C06_src_s2m_authenticated_unlisted_refused", "C06_src_m2s_connecting_unlisted_refused", "C06_src_m2s_authenticated_unlisted_refused", "C06_src_link_listed_handled"]


LINK_NOTE = "Modulator-link stage: the real S2M/M2S dispatchers (crates/modulator/src/conn.rs) behind the real connection engine are fed raw byte chunks (handshakes with right/wrong/missing secret and version, the whole three-link vocabulary in each phase, payloads, scripted modulator outcomes) and compared chunk by chunk with Model/Link.v inside coqc (Conf/LinkConf.link_conf); the real S2mClient (crates/modulator/src/client.rs) is run against a scripted wire peer (sensible, contradictory, mis-correlated, malformed, missing replies, dropped links) and each call's result is compared with Model/Link.v's reply mapping (Conf/LinkConf.client_conf); a share of the server histories runs with the real S2M/M2S wire path between server and modulator (unix sockets)."


def run(tier, replay=None):
    return srvprops.run(PROP, THEOREMS, tier, replay, link=("link", "client"), rule_note=LINK_NOTE)
