"""C06 — decided on the server model; see lib/srvprops.py and coq/Props/C06.v"""
import serverlib as sl
import srvprops

PROP = "C06"
THEOREMS = ["C06_preauth_is_inert", "C06_phase_monotone", "C06_no_reidentify", "C06_conns_wf_reachable", "C06_link_preauth_inert", "C06_link_phase_monotone", "C06_link_closed_is_final", "C06_link_stream_no_act_before_handshake", "C06_link_wrong_or_missing_secret_refused", "C06_undeclared_operation_never_sent", "C06_src_c2s_connecting_unlisted_refused", "C06_src_c2s_connected_unlisted_refused", "C06_src_c2s_authenticated_unlisted_refused", "C06_src_c2s_listed_handled", "C06_src_c2s_preauth_listed_handled", "C06_src_s2m_connecting_unlisted_refused", "C06_src_s2m_authenticated_unlisted_refused", "C06_src_m2s_connecting_unlisted_refused", "C06_src_m2s_authenticated_unlisted_refused", "C06_src_link_listed_handled"]


LINK_NOTE = "Modulator-link stage: the real S2M/M2S dispatchers (crates/modulator/src/conn.rs) behind the real connection engine are fed raw byte chunks (handshakes with right/wrong/missing secret and version, the whole three-link vocabulary in each phase, payloads, scripted modulator outcomes) and compared chunk by chunk with Model/Link.v inside coqc (Conf/LinkConf.link_conf); the real S2mClient (crates/modulator/src/client.rs) is run against a scripted wire peer (sensible, contradictory, mis-correlated, malformed, missing replies, dropped links) and each call's result is compared with Model/Link.v's reply mapping (Conf/LinkConf.client_conf); a share of the server histories runs with the real S2M/M2S wire path between server and modulator (unix sockets)."


def slow_auth_histories(r, thorough):
    """a link whose AUTH is suspended in the modulator for longer than request_timeout (the handshake is not a request: it
    simply waits), possibly hanging up meanwhile: whatever the modulator answers in the end, a link that is gone causes no
    routing state — nobody can be joined on its user's behalf, MEMBERS lists nobody without a live connection, the name is
    not taken.  Outside the sequential model (parked call): judged by the tracker and the audit."""
    import srvmon
    cases = []
    for i in range(8 if thorough else 4):
        mod = {"ops": ["auth", "fwd-event"], "proto": "P/1"}
        cfg = sl.base_cfg(r, mod)
        cfg.update({"max_clients": 10, "max_subs": 10, "max_conns": 16, "max_channels": 100, "max_inflight": 10, "request_timeout_ms": 5000})
        g = sl.Gen(r, cfg)
        ch = "!c1@localhost"
        g.ops.append({"t": "open", "k": 1})
        g.send(1, sl.frame("CONNECT", [("version", 1), ("heartbeat_interval", 0)]), [])
        g.send(1, sl.frame("AUTH", [("token", "tok-alice")]), [{"auth_success": b"alice".hex()}])
        g.conns[1] = {"phase": 2, "user": "alice"}
        g.send(1, sl.frame("JOIN", [("id", g.rid()), ("channel", ch)]), ["ok"])
        g.ops.append({"t": "open", "k": 2})
        g.send(2, sl.frame("CONNECT", [("version", 1), ("heartbeat_interval", 0)]), [])
        g.ops.append({"t": "send", "k": 2, "bytes": sl.frame("AUTH", [("token", "tok-bob")]).hex(), "script": [{"park": 1}]})
        g.ops.append({"t": "advance", "ms": 6000})
        hang = i % 2 == 1
        if hang:
            g.ops.append({"t": "hangup", "k": 2, "script": []})
        g.ops.append({"t": "release", "id": 1, "outcome": {"auth_success": b"bob".hex()} if i % 4 < 2 else "auth_fail"})
        g.ops.append({"t": "advance", "ms": 50})
        if not hang and i % 4 < 2:
            g.conns[2] = {"phase": 2, "user": "bob"}
        # the owner tries to join bob on his behalf: accepted only if bob has a live connection
        g.send(1, sl.frame("JOIN", [("id", g.rid()), ("channel", ch), ("on_behalf", "bob@localhost")]), ["ok"])
        ops = g.ops + srvmon.audit_ops(g)
        cases.append({"cfg": cfg, "ops": ops, "nomodel": True, "also": ["C05"]})
    return cases


def run(tier, replay=None):
    return srvprops.run(PROP, THEOREMS, tier, replay, link=("link", "client"), extra_gen=slow_auth_histories,
                        rule_note=LINK_NOTE + " Plus slow-AUTH histories: an AUTH suspended in the modulator beyond request_timeout, the link possibly gone meanwhile; the owner then tries an on-behalf JOIN of that user and everybody is audited.")
