"""C06 — decided on the server model; see lib/srvprops.py and coq/Props/C06.v"""
import srvprops

PROP = "C06"
THEOREMS = ["C06_preauth_is_inert", "C06_phase_monotone", "C06_no_reidentify", "C06_conns_wf_reachable"]


def run(tier, replay=None):
    return srvprops.run(PROP, THEOREMS, tier, replay)
