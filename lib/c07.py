"""C07 — client identities are well-formed, unique while live, and cannot be forged."""
import os

import serverlib as sl
import srvprops
from common import VERIF

PROP = "C07"
THEOREMS = ["C07_alnum_is_not_space_nor_at", "C07_local_nid_wellformed", "C07_no_space_no_at", "C07_never_bare_domain", "C07_assigned_in_reachable_states", "C07_unique_while_live", "C07_needs_no_auth_witness", "C07_name_free_again", "C07_sender_identity_in_messages", "C07_at_most_one_thread_wins_a_name", "C07_exactly_one_wins_once_all_have_tried", "C07_check_then_insert_two_winners_refuted", "C07_source_exclusive_check_under_entry_guard"]

WS = [0x20, 0x09, 0x0A, 0x0B, 0x0C, 0x0D, 0x85, 0xA0, 0x1680, 0x2000, 0x2003, 0x200A, 0x2028, 0x2029, 0x202F, 0x205F, 0x3000]
ALNUM = [0x41, 0x7A, 0x30, 0xE9, 0x3A9, 0x4E2D, 0x0661, 0x1D7D8, 0x10400, 0xAA, 0xB2, 0x2160]
OTHER = [0x40, 0x2D, 0x2E, 0x5F, 0x21, 0x2F, 0x3D, 0x5C, 0x22, 0x1F600, 0x200B, 0xFEFF, 0x00AD, 0x0301, 0x7F, 0x01]


def odd_name(r):
    k = r.random()
    cps = []
    if k < 0.25:
        cps = [r.choice(WS) for _ in range(r.randint(0, 2))] + [r.choice(ALNUM) for _ in range(r.randint(0, 4))] + [r.choice(WS) for _ in range(r.randint(0, 2))]
    elif k < 0.5:
        cps = [r.choice(ALNUM + OTHER + WS) for _ in range(r.randint(1, 6))]
    elif k < 0.7:
        cps = [r.choice(ALNUM) for _ in range(r.choice([1, 2, 64, 85, 86, 128, 255, 256, 257]))]
    elif k < 0.85:
        cps = [r.randrange(0x20, 0x3000) for _ in range(r.randint(1, 5))]
    else:
        cps = [r.choice([0x61, 0x62]), r.choice(OTHER + WS), r.choice([0x61, 0x62])]
    cps = [c for c in cps if not (0xD800 <= c <= 0xDFFF) and c not in (0x0A, 0x00)]
    return "".join(chr(c) for c in cps).encode("utf-8")


def identity_histories(r, thorough):
    cases = []
    for _ in range(40 if thorough else 8):
        cfg = sl.base_cfg(r, None)
        cfg.update({"max_conns": 64})
        ops = []
        for k in range(1, (40 if thorough else 24)):
            name = odd_name(r) if r.random() < 0.8 else r.choice([b"alice", b"bob", b" alice ", b"alice\t"])
            if not name:
                continue
            ops.append({"t": "open", "k": k})
            ops.append({"t": "send", "k": k, "bytes": sl.frame("CONNECT", [("version", 1), ("heartbeat_interval", 0)]).hex(), "script": []})
            ops.append({"t": "send", "k": k, "bytes": sl.frame("IDENTIFY", [("username", name)]).hex(), "script": []})
            if r.random() < 0.3:
                ops.append({"t": "hangup", "k": k, "script": []})
        cases.append({"cfg": cfg, "ops": ops})
    return cases


def direct_pending_hangup_histories(r, thorough):
    """a connection ends (or its request times out) while its client direct message is suspended in the modulator, or while
    any other request of it is: afterwards the name is free again and its memberships are gone.  Outside the sequential
    model (parked calls): judged by the tracker's "refused although no live connection holds the name" and the audit."""
    import srvmon
    cases = []
    for i in range(12 if thorough else 4):
        mod = {"ops": ["fwd-event", "send-private-payload"], "proto": "P/1"}
        cfg = sl.base_cfg(r, mod)
        cfg.update({"max_clients": 10, "max_subs": 10, "max_conns": 16, "max_channels": 100, "max_inflight": 10, "request_timeout_ms": 5000})
        g = sl.Gen(r, cfg)
        ks = sl._login(g, ["alice", "bob"])
        ch = "!c1@localhost"
        g.send(ks["alice"], sl.frame("JOIN", [("id", g.rid()), ("channel", ch)]), [])
        g.send(ks["bob"], sl.frame("JOIN", [("id", g.rid()), ("channel", ch)]), [])
        what = ["direct", "direct", "join", "bcast"][i % 4]
        if what == "direct":
            g.ops.append({"t": "send", "k": ks["bob"], "bytes": sl.frame("MOD_DIRECT", [("id", g.rid()), ("from", "bob"), ("length", 5)], b"hello").hex(), "script": [{"park": 1}]})
        elif what == "join":
            g.ops.append({"t": "send", "k": ks["bob"], "bytes": sl.frame("JOIN", [("id", g.rid()), ("channel", "!c2@localhost")]).hex(), "script": [{"park": 1}]})
        else:
            g.ops.append({"t": "send", "k": ks["bob"], "bytes": sl.frame("LEAVE", [("id", g.rid()), ("channel", ch)]).hex(), "script": [{"park": 1}]})
        if i % 2 == 0:
            g.ops.append({"t": "hangup", "k": ks["bob"], "script": []})
            del g.conns[ks["bob"]]
            g.ops.append({"t": "release", "id": 1, "outcome": r.choice(["ok", "err"])})
        else:
            g.ops.append({"t": "advance", "ms": 6000})          # the request is dropped at its time-out
            g.ops.append({"t": "release", "id": 1, "outcome": "ok"})
            g.ops.append({"t": "hangup", "k": ks["bob"], "script": []})
            del g.conns[ks["bob"]]
        g.ops.append({"t": "advance", "ms": 50})
        k = g.next_k
        g.next_k += 1
        g.ops.append({"t": "open", "k": k})
        g.ops.append({"t": "send", "k": k, "bytes": sl.frame("CONNECT", [("version", 1), ("heartbeat_interval", 0)]).hex(), "script": []})
        g.ops.append({"t": "send", "k": k, "bytes": sl.frame("IDENTIFY", [("username", "bob")]).hex(), "script": []})
        g.conns[k] = {"phase": 2, "user": "bob"}
        ops = g.ops + srvmon.audit_ops(g)
        cases.append({"cfg": cfg, "ops": ops, "nomodel": True, "also": ["C05"]})
    return cases


def exclusive_stage(thorough, violations, stats):
    """several threads IDENTIFY (register exclusively) under one name at the same instant, round after round, on the real
    c2s::Router: exactly one wins each round (supporting evidence for what no single-threaded history can reach)"""
    from common import run_harness
    cases = [{"exclusive": True, "threads": th, "rounds": (200000 if thorough else 30000)} for th in (2, 4)]
    obs, out = run_harness("router", cases, "debug", tag="c07ex", timeout=900)
    if obs is None:
        violations.append((PROP, "exclusive-registration contention run crashed or hung: " + out[-300:], cases[0], 0))
        return
    stats["exclusive_registration_rounds"] = sum(c["rounds"] for c in cases)
    for c, o in zip(cases, obs):
        if o["bad_rounds"] or not o["threads_ok"]:
            violations.append((PROP, f"{o['threads']} threads registering the same name exclusively at the same instant: in {o['bad_rounds']} of {o['rounds']} rounds the name was not given to exactly one of them", c, 0))


def run(tier, replay=None):
    return srvprops.run(PROP, THEOREMS, tier, replay, extra_stage=exclusive_stage, extra_gen=lambda r, th: identity_histories(r, th) + sl.stalled_drop_histories(r, th) + sl.retry_identify_histories(r, th) + direct_pending_hangup_histories(r, th),
                        rule_note="plus retried-IDENTIFY histories (refused under a name in use, then identified under a free name: the acknowledged identity is the new one); plus identity histories: IDENTIFY with usernames over Unicode whitespace / alphanumeric / punctuation / emoji / zero-width code points, padding, lengths around 256 bytes, name re-use after hang-up, and after a connection that ended through the write-error path (stalled peer vanishing)")
