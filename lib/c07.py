"""C07 — decided on the server model; see lib/srvprops.py and coq/Props/C07.v"""
import srvprops

PROP = "C07"
THEOREMS = ["C07_model_smoke"]


def run(tier, replay=None):
    return srvprops.run(PROP, THEOREMS, tier, replay)
