"""C10 — inbound framing: a byte stream means the same however it is segmented."""
import json

import codecgen as cg
from common import (coqchk, Rng, assumptions, coq_bytes, coq_eval, coq_make, harness_build, hygiene, load_known, log,
                    regen, run_harness, seed, write_evidence, write_replay, TRUSTED_BASE)

PROP = "C10"
THEOREMS = ["C10_segmentation_independent", "C10_segmentations_agree", "C10_payload_opaque", "C10_all_lengths_accepted",
            "C10_geometry_example_default", "C10_non_bucket_limit_has_top_bucket", "C10_small_budget_refuted"]
PRELUDE = ("From NW Require Import Base.Bytes Model.SchemaTypes Gen.Schema Model.Codec Model.Pool Model.Framing "
           "Conf.CodecConf Conf.FramingConf.\n")

PAYLOAD_KINDS = {"BROADCAST": b"BROADCAST id=%d channel=!c@localhost length=%d",
                 "MOD_DIRECT": b"MOD_DIRECT id=%d from=u@localhost length=%d",
                 "MESSAGE": b"MESSAGE from=u@localhost channel=!c@localhost length=%d",
                 "S2M_FBP_ACK": b"S2M_FORWARD_BROADCAST_PAYLOAD_ACK id=%d valid=true altered_payload=true altered_payload_length=%d"}
PLAIN = [b"PING id=%d", b"JOIN id=%d channel=!c@localhost", b"CONNECT version=1 heartbeat_interval=%d",
         b"CHANNELS id=%d owner=true", b"PONG id=%d"]


def rand_payload(r, n):
    k = r.random()
    if k < 0.3:
        return bytes(r.randrange(256) for _ in range(n))
    if k < 0.5:
        base = b"PING id=1\nBROADCAST id=2 channel=!x@y length=3\nabc\n"
        return (base * (n // len(base) + 1))[:n]
    if k < 0.65:
        return b"\n" * n
    return bytes(r.choice(b"ab\n\r\x00 \\\"=") for _ in range(n))


def gen_stream(r, cfg):
    """returns (stream bytes, intended payload list or None when the stream is deliberately broken)"""
    out = b""
    payloads = []
    nframes = r.randint(1, 5)
    broken = False
    for _ in range(nframes):
        if r.random() < 0.55:
            kind = r.choice(list(PAYLOAD_KINDS))
            lens = [1, 2, 255, 256, 257, 511, 512, 513, cfg["max_payload"] - 1, cfg["max_payload"], r.randint(1, max(1, cfg["max_payload"]))]
            n = max(1, r.choice(lens))
            if r.random() < 0.07:
                n = cfg["max_payload"] + r.choice([1, 2, 1000])
            tmpl = PAYLOAD_KINDS[kind]
            hdr = tmpl % ((r.randint(1, 99), n) if tmpl.count(b"%d") == 2 else (n,))
            if len(hdr) + 1 > cfg["max_msg"]:
                continue
            pl = rand_payload(r, n)
            out += hdr + b"\n" + pl
            if n > cfg["max_payload"]:
                out += b"\n"
                broken = True
                break
            k = r.random()
            if k < 0.88:
                out += b"\n"
                payloads.append(pl)
            elif k < 0.94:
                out += b"X"
                broken = True
                break
            else:
                broken = True   # EOF right after payload / inside it
                if r.random() < 0.5:
                    out = out[:len(out) - r.randint(0, min(n, 5))]
                break
        else:
            hdr = r.choice(PLAIN) % r.randint(1, 99)
            k = r.random()
            if k < 0.08:
                hdr = hdr + b" " + b"x" * r.randint(cfg["max_msg"] - len(hdr) - 3, cfg["max_msg"] + 5)
                broken = True
            elif k < 0.14:
                hdr = cg.mutate(r, hdr).replace(b"\n", b"")
                broken = True
            out += hdr + b"\n"
            payloads.append(None)
            if broken:
                break
    if r.random() < 0.1:
        out += r.choice([b"PING id=", b"P", b"BROADCAST id=1 channel=c length=4\nab"])
        broken = True
    return out, (None if broken else payloads)


def segmentations(r, s, thorough):
    n = len(s)
    segs = [[s]] if n else [[]]
    if n:
        segs.append([s[i:i + 1] for i in range(n)])
    cuts_pool = list(range(1, n))
    for _ in range(6 if not thorough else 12):
        if not cuts_pool:
            break
        k = r.randint(1, min(6, len(cuts_pool)))
        cuts = sorted(r.sample(cuts_pool, k))
        parts = [s[a:b] for a, b in zip([0] + cuts, cuts + [n])]
        segs.append(parts)
    # cuts around every newline
    nl = [i for i, b in enumerate(s) if b == 10]
    for i in nl[:8]:
        for c in (i, i + 1):
            if 0 < c < n:
                segs.append([s[:c], s[c:]])
    if thorough and n <= 90:
        for c in range(1, n):
            segs.append([s[:c], s[c:]])
    return [[p for p in sg if p] for sg in segs]


def parse_error_frame(out):
    """bytes written by the server -> terminal ritem term"""
    if not out:
        return "EofQuiet"
    line = out.split(b"\n")[0]
    toks = line.split(b" ")
    if toks[0] != b"ERROR":
        return "UNKNOWN:" + out[:60].hex()
    idv = None
    reason = None
    for t in toks[1:]:
        if t.startswith(b"id="):
            idv = int(t[3:])
        if t.startswith(b"reason="):
            reason = t[7:]
    ids = "None" if idv is None else "(Some %d)" % idv
    if reason == b"POLICY_VIOLATION" and b"max message size exceeded" in line:
        return "EMaxLine"
    if reason == b"POLICY_VIOLATION" and b"payload too large" in line:
        return "(EPayloadTooLarge %s)" % ids
    if reason == b"BAD_REQUEST" and b"invalid payload format" in line:
        return "(EInvalidPayload %s)" % ids
    if reason == b"BAD_REQUEST":
        return "EBadRequest"
    if reason == b"INTERNAL_SERVER_ERROR":
        return "EInternal"
    return "UNKNOWN:" + out[:60].hex()


def obs_terms(o):
    items = []
    for it in o["items"]:
        pl = "None" if it["payload"] is None else "(Some %s)" % coq_bytes(bytes.fromhex(it["payload"]))
        items.append("Dispatch %s %s" % (cg.coq_msg(it), pl))
    if o["panic"]:
        items.append("PanicPool")
    else:
        items.append(parse_error_frame(bytes.fromhex(o["out"])))
    return items


CONFIGS = [
    {"max_msg": 128, "max_payload": 1024, "budget": 1 << 20, "max_conns": 2},
    {"max_msg": 160, "max_payload": 512, "budget": 1 << 16, "max_conns": 1},
    {"max_msg": 256, "max_payload": 4096, "budget": 1 << 20, "max_conns": 2},
    {"max_msg": 128, "max_payload": 256, "budget": 4096, "max_conns": 1},
]
# configurations outside the hypothesis of C10_all_lengths_accepted (known finding classes)
CONFIGS_ODD = [
    {"max_msg": 128, "max_payload": 1000, "budget": 1 << 20, "max_conns": 2},   # not a bucket size
    {"max_msg": 128, "max_payload": 1024, "budget": 1500, "max_conns": 2},      # budget too small for the top bucket
]


def cfg_term(c):
    return "(mkcfg %d %d %d %d)" % (c["max_msg"], c["max_payload"], c["budget"], c["max_conns"])


def run(tier, replay=None):
    thorough = tier == "thorough"
    r = Rng(seed())
    broken = []
    ok_tr, tr_out = regen()
    if not ok_tr:
        broken.append("translator: " + tr_out)
    hyg = hygiene()
    if hyg:
        broken.append("forbidden vernacular: " + "; ".join(hyg))
    ok_model, mk1 = coq_make(["Conf/FramingConf.vo"])
    ok_props, mk2 = coq_make(["Props/C10.vo"]) if ok_model else (False, mk1)
    closed = {}
    if ok_props:
        closed, aout = assumptions(PROP, THEOREMS, "Props.C10")
        if closed is None:
            ok_props, mk2, closed = False, aout, {}
    if not ok_props:
        broken.append("Props/C10.vo does not compile: " + (mk2 or "")[-1500:])
    else:
        op = [t for t in THEOREMS if closed.get(t) != "closed"]
        if op:
            broken.append("not closed under the global context: %s" % op)
    if thorough and ok_props:
        okc, summ = coqchk(PROP)
        if not okc:
            broken.append("independent checker: " + summ)
    for prof in ("debug", "release"):
        okb, bout = harness_build(prof)
        if not okb:
            rp = write_replay(PROP, "harness_build", {"what": "harness does not build against /repo", "log": bout[-4000:]})
            write_evidence(PROP, tier, {"obligations": len(THEOREMS), "discharged": 0, "checker_cmd": "make", "trusted_base": TRUSTED_BASE}, [], 1)
            print(f"VIOLATION property={PROP} replay={rp} no-failing-input-found")
            return 1

    known = {k["id"]: k for k in load_known(PROP)}
    known_seen = {}
    violations, disagreements = [], []
    stats = {"streams": 0, "cases": 0, "echo_cases": 0, "terminal": {}, "dispatched_frames": 0, "payload_lengths": {}}
    samples = []
    total = 0
    nontrivial = set()

    def search(n_streams, tag, cfgs):
        nonlocal total
        cases, meta = [], []
        if replay:
            with open(replay) as f:
                rj = json.load(f)
            for c in rj.get("cases", []):
                cases.append(c)
                meta.append((len(meta), None))
        else:
            for si in range(n_streams):
                cfg = cfgs[si % len(cfgs)]
                s, intended = gen_stream(r, cfg)
                for sg in segmentations(r, s, thorough):
                    cases.append({"cfg": cfg, "segs": [p.hex() for p in sg]})
                    meta.append((si, intended))
                    if len(sg) > 1 and (thorough or r.random() < 0.5):
                        # the same segments with outbound traffic in between: every dispatched frame is answered (echo) and the
                        # stream yields between segments, so the connection loop's select! drops a pending header read
                        cases.append({"cfg": cfg, "segs": [p.hex() for p in sg], "echo": True})
                        meta.append((si, intended))
            # every payload length 1..max for one bucket-aligned and the odd configs (sampled in quick)
            for cfg in cfgs[:1] + CONFIGS_ODD:
                step = 1 if thorough else 37
                for n in list(range(1, cfg["max_payload"] + 1, step)) + [cfg["max_payload"]]:
                    s = (b"BROADCAST id=7 channel=!c@localhost length=%d\n" % n) + b"z" * n + b"\n"
                    cases.append({"cfg": cfg, "segs": [s.hex()]})
                    meta.append((-1 - n, [b"z" * n]))
        stats["streams"] += n_streams
        obs = {}
        for prof in ("debug", "release"):
            o, hout = run_harness("framing", cases, prof, tag=tag, timeout=3000)
            if o is None:
                violations.append(("harness crashed or hung (a hang is a violation: never a hang): " + hout[-500:], {"cases": cases[:20]}))
                return
            obs[prof] = o
        total += len(cases)
        stats["echo_cases"] += len([c for c in cases if c.get("echo")])
        # --- monitors on the implementation
        by_stream = {}
        for i, (c, (si, intended)) in enumerate(zip(cases, meta)):
            for prof in ("debug", "release"):
                o = obs[prof][i]
                key = (si, json.dumps(c["cfg"], sort_keys=True), b"".join(bytes.fromhex(h) for h in c["segs"]))
                by_stream.setdefault((prof,) + key, []).append((i, o))
                term = "panic" if o["panic"] else parse_error_frame(bytes.fromhex(o["out"])).split(" ")[0].strip("(")
                if prof == "debug":
                    stats["terminal"][term] = stats["terminal"].get(term, 0) + 1
                    stats["dispatched_frames"] += len(o["items"])
                    if o["items"]:
                        nontrivial.add(key[2])
                if term.startswith("UNKNOWN"):
                    violations.append((f"undocumented output on the wire ({prof}): {term}", c))
                if o["panic"]:
                    cfg = c["cfg"]
                    aligned = cfg["max_payload"] in (256 << k for k in range(24))
                    kid = "K10a" if not aligned else "K10b"
                    if kid in known:
                        known_seen.setdefault(kid, c)
                    else:
                        violations.append((f"connection task panicked ({prof}); class {kid}", c))
                if intended is not None and not o["panic"]:
                    got = [None if it["payload"] is None else bytes.fromhex(it["payload"]) for it in o["items"]]
                    if got != intended or o["out"]:
                        violations.append((f"well-formed stream not accepted frame-for-frame with opaque payloads ({prof}): dispatched {len(got)} of {len(intended)} frames, wire output {bytes.fromhex(o['out'])[:80]!r}", c))
        for key, lst in by_stream.items():
            view = lambda o: json.dumps({k: o[k] for k in ("items", "out", "panic")}, sort_keys=True)
            ref = view(lst[0][1])
            for i, o in lst[1:]:
                if view(o) != ref:
                    violations.append((f"same byte stream, different segmentation, different behaviour ({key[0]})", {"a": cases[lst[0][0]], "b": cases[i]}))
                    break
        # --- correspondence
        if ok_model:
            terms = []
            for prof, md in (("debug", "Checked"), ("release", "Wrapping")):
                for c, o in zip(cases, obs[prof]):
                    segs = "[" + ";".join(coq_bytes(bytes.fromhex(h)) for h in c["segs"]) + "]"
                    ot = obs_terms(o)
                    if any(t.startswith("UNKNOWN") for t in ot):
                        terms.append("false")
                    else:
                        t = "framing_case %s %s %s [%s]" % (md, cfg_term(c["cfg"]), segs, ";".join(ot))
                        stream = b"".join(bytes.fromhex(h) for h in c["segs"])
                        # A BAD_REQUEST frame echoes the decode error (which may quote the offending value); when that
                        # text cannot be serialized (too long for max_message_size, or no free escape delimiter) the
                        # connection closes silently.  The model does not render Rust error texts, so a silent close is
                        # accepted in place of EBadRequest exactly when such a line is present in the stream.
                        unser = all(ch in stream for ch in b"\"':*") or any(len(l) > c["cfg"]["max_msg"] - 70 for l in stream.split(b"\n"))
                        if ot[-1] == "EofQuiet" and unser:
                            t = "(%s || framing_case %s %s %s [%s])" % (t, md, cfg_term(c["cfg"]), segs, ";".join(ot[:-1] + ["EBadRequest"]))
                        terms.append(t)
            bad, cout = coq_eval(PRELUDE, terms, kind="bool", tag=tag + "conf")
            if bad is None:
                broken.append("correspondence could not be evaluated: " + cout[-800:])
            else:
                for j in bad:
                    i = j % len(cases)
                    disagreements.append({"profile": "debug" if j < len(cases) else "release", "case": cases[i], "observed": obs["debug" if j < len(cases) else "release"][i]})
        if not samples and cases:
            samples.extend([cases[0], cases[min(3, len(cases) - 1)]])

    def geo_check(tag):
        cases = []
        for mx in [256, 512, 1000, 1024, 4096, 5000, 65536, 300, 255 * 4, 1 << 20]:
            for budget in [1, 255, 256, 600, 1500, 4096, 70000, 1 << 20, 1 << 24, (1 << 20) + 13]:
                for cap in [1, 3, 129, 100000]:
                    probes = sorted(set([1, 255, 256, 257, 511, 512, 513, mx // 2, mx - 1, mx, mx + 1]))
                    probes = [p for p in probes if p >= 1]
                    cases.append({"op": "geo", "max": mx, "budget": budget, "cap": cap, "probes": probes})
        o, hout = run_harness("framing", cases, "release", tag=tag, timeout=600)
        if o is None:
            broken.append("geometry probe failed: " + hout[-500:])
            return
        terms = []
        for c, ob in zip(cases, o):
            if ob.get("panic"):
                terms.append("false")
                continue
            pr = "[" + ";".join("(%d, %s)" % (p, "None" if v is None else "Some %d" % v) for p, v in zip(c["probes"], ob["probes"])) + "]"
            terms.append("geo_case %d %d %d %d %d %s" % (c["max"], c["budget"], c["cap"], ob["bytes"], ob["count"], pr))
        bad, cout = coq_eval(PRELUDE, terms, kind="bool", tag=tag)
        if bad is None:
            broken.append("geometry correspondence could not be evaluated: " + cout[-500:])
        else:
            for j in bad:
                disagreements.append({"geometry_case": cases[j], "observed": o[j]})
        stats["geometry_cases"] = len(cases)

    search(250 if thorough else 40, "q", CONFIGS + CONFIGS_ODD)
    if not replay:
        # the same framing contract on the modulator link's client side (narwhal_common::client reader)
        import linklib as ll
        oc = ll.opacity_cases(r, 120 if thorough else 24)
        oobs, oout = ll.run_client(oc, tag="c10op")
        if oobs is None:
            violations.append(("s2mclient harness crashed or hung: " + oout[-300:], {"cases": oc[:2]}))
        else:
            stats["client_opacity_cases"] = len(oc)
            for c, ob in zip(oc, oobs):
                for what, j in ll.opacity_monitor(c, ob):
                    violations.append(("client read path: " + what, {"client_case": c}))
    if not replay:
        # the link handshake reply (narwhal_protocol::request) in one piece and cut into segments
        sh = ll.split_handshake_cases(r, 60 if thorough else 12)
        sobs, sout = ll.run_client(sh, tag="c10hs")
        if sobs is None:
            violations.append(("s2mclient harness crashed or hung on the split handshake: " + sout[-300:], {"cases": sh[:2]}))
        else:
            stats["split_handshake_pairs"] = len(sh) // 2
            for what, c in ll.split_handshake_monitor(sh, sobs):
                violations.append(("client handshake path: " + what, {"client_case": c}))
    if ok_model and not replay:
        geo_check("geo")
    if (broken or disagreements) and not violations and not replay:
        log("proof/correspondence broken; extended search", broken[:1], disagreements[:1])
        search(300, "x", CONFIGS + CONFIGS_ODD)

    coverage = {
        "obligations": len(THEOREMS), "discharged": len([t for t in THEOREMS if closed.get(t) == "closed"]),
        "checker_cmd": "python3 translator/gen.py && make -C coq -j16 Props/C10.vo Conf/FramingConf.vo && coqc work/assm_C10.v (Print Assumptions)",
        "trusted_base": TRUSTED_BASE, "theorems": THEOREMS, "print_assumptions": closed,
        "evaluations": total, "distinct_nontrivial": len(nontrivial),
        "rule": "streams of 1-5 frames (payload-bearing kinds with binary/newline/header-like payloads at bucket-boundary lengths, plain requests, oversize headers/payloads, missing newline, EOF mid-frame) x segmentations (whole, 1-byte, random cuts, cuts around every newline; thorough: every 2-way cut) x 6 configurations, run through the real ConnManager::run_connection with a recording dispatcher in debug and release, about half of the multi-segment cases a second time with outbound traffic interleaved (each dispatched frame answered, the stream yielding between segments, so that pending header reads are cancelled by the connection loop's select!); distinct non-trivial = distinct streams for which at least one frame was dispatched",
        "traces_validated_against_impl": total * 2, "disagreements": len(disagreements),
        "distribution": stats, "samples": samples, "known_findings_reproduced": sorted(known_seen), "exhaustive": False,
    }
    assum = ["StreamReader/conn read path model is hand-written (Model/Framing.v), tied by correspondence; AsyncRead contract (a read returns 1..free bytes or EOF) is an assumption of the segmentation theorem",
             "pool geometry: floor(x*0.5) modelled as x/2 (exact below 2^53)"]
    if violations:
        what, c = violations[0]
        rp = write_replay(PROP, "violation", {"what": what, "cases": [c] if "cfg" in c else ([c["client_case"]] if "client_case" in c else [c.get("a"), c.get("b")]), "all": [w for w, _ in violations[:20]], "broken": broken})
        write_evidence(PROP, tier, coverage, assum, len(violations))
        print(f"VIOLATION property={PROP} replay={rp}")
        log(what)
        return 1
    if broken or disagreements:
        rp = write_replay(PROP, "broken", {"what": "no failing input found; the following no longer checks", "broken": broken,
                                           "correspondence_disagreements": disagreements[:10],
                                           "cases": [d["case"] for d in disagreements[:10] if "case" in d]})
        write_evidence(PROP, tier, coverage, assum, 1)
        print(f"VIOLATION property={PROP} replay={rp} no-failing-input-found")
        return 1
    for kid in sorted(known):
        if kid in known_seen:
            print(f"KNOWN-FINDING: property={PROP} {kid} {known[kid]['what']}")
    write_evidence(PROP, tier, coverage, assum, 0)
    return 0
