"""C11 — wire codec: total decoding, lossless round trip."""
import json
import os

import codecgen as cg
from common import (coqchk, Rng, assumptions, coq_bytes, coq_eval, coq_make, harness_build, hygiene, load_known, log,
                    regen, run_harness, seed, write_evidence, write_replay, TRUSTED_BASE, VERIF)

PROP = "C11"
THEOREMS = ["C11_decode_no_panic", "C11_decode_total", "C11_decode_message_or_error", "C11_schema_ok", "C11_one_line",
            "C11_roundtrip", "C11_value_roundtrip", "C11_K11a_empty_string_refuted", "C11_K11b_nul_refuted",
            "C11_K11c_leading_escape_refuted", "C11_K11d_lone_backslash_refuted", "C11_K11e_trailing_backslash_refuted",
            "C11_K11f_invalid_message_refuted"]
PRELUDE = "From NW Require Import Base.Bytes Model.SchemaTypes Gen.Schema Model.Codec Model.CodecWf Conf.CodecConf.\n"

CLASS_NAMES = {1: "K11a", 2: "K11b", 3: "K11c", 4: "K11d", 5: "K11e", 6: "K11f"}


def fields_have_nl(c):
    for f in c["fields"]:
        (k, x), = f.items()
        vals = [x] if k in ("s", "os") and x is not None else (x if k == "v" else [])
        if any(b"\n" in bytes.fromhex(h) for h in vals):
            return True
    return False


def gen_cases(r, n_dec, n_enc, thorough):
    dec, enc = [], []
    # corpus first
    cdir = os.path.join(VERIF, "corpus", "C11")
    if os.path.isdir(cdir):
        for fn in sorted(os.listdir(cdir)):
            with open(os.path.join(cdir, fn)) as f:
                for c in json.load(f):
                    (dec if c["op"] == "dec" else enc).append(c)
    # directed decode inputs
    directed = [b"", b" ", b"PING", b"PING id=1", b"PING id=0", b"PING id=+1", b"PING id=1 id=2", b"PING  id=1 ",
                b"PING id:1=1", b"PING id:0=1", b"PING id:0=", b"PING id:2=1 2", b"PING id:2=1", b"PING id=1 x:0=a b",
                b"CHAN_ACL id=1 channel=c type=read nids:0=a", b"CHAN_ACL id=1 channel=c type=read nids:0=a page=1",
                b"CHAN_ACL id=1 channel=c type=read nids:18446744073709551615=a",
                b"CHAN_ACL id=1 channel=c type=read nids:18446744073709551616=a",
                b"ERROR reason=BAD_REQUEST detail=\\\"\\\"", b"ERROR reason=BAD_REQUEST detail=\\", b"ERROR reason=\\",
                b"ERROR reason=BAD_REQUEST detail=\\\"a \\\\\"", b"ERROR reason=BAD_REQUEST detail=\\\"a\\\" id=3",
                b"ERROR reason=SEND_CHANNEL_FULL", b"ERROR reason=NOPE", b"PING id=1 \x00 junk", b"PING\x00id=1",
                b"\x00", b"\\", b"PING id=\\", b"PING id=1 \\", b"PING =1", b"PING :1=1", b"PING id", b"PING id=",
                b"BROADCAST id=1 channel=c length=5 qos=2", b"BROADCAST id=1 channel=c length=5 qos=1",
                b"AUTH token=\xff", b"AUTH token=\xc3\xa9", b"AUTH token=\xed\xa0\x80", b"AUTH token=\xf4\x90\x80\x80",
                b"AUTH token=\xc0\x80", b"AUTH token=\xe0\x80\x80", b"M2S_MOD_DIRECT id=1 length=1",
                b"M2S_MOD_DIRECT id=1 length=1 targets=a", b"M2S_MOD_DIRECT id=1 length=1 targets:2=a a"]
    for b in directed:
        dec.append({"op": "dec", "bytes": b.hex()})
    for _ in range(n_dec):
        line = cg.rand_line(r)
        k = r.random()
        if k < 0.45:
            pass
        elif k < 0.9:
            line = cg.mutate(r, line)
        else:
            line = bytes(r.randrange(256) if r.random() < 0.3 else r.choice(b"PING id=1:\\\" ") for _ in range(r.randint(0, 24)))
        dec.append({"op": "dec", "bytes": line.hex()})
    nk = len(cg.schema())
    for i in range(n_enc):
        m = cg.rand_msg(r, kind=i % nk if i < 2 * nk else None)
        cap = r.choice([4096, 4096, 4096, 1024, 64, 32, 16, 8, 0, r.randint(0, 80)])
        m.update({"op": "enc", "cap": cap})
        enc.append(m)
        if i < nk or r.random() < 0.15:
            # the buffer boundary: exactly the encoded line, one byte less (no room for the newline), one more
            import copy
            for rel in (-1, 0, 1):
                m2 = copy.deepcopy(m)
                m2.update({"cap": 4096, "cap_rel": rel})
                enc.append(m2)
    if thorough:
        # exhaustive: all values of length <= 3 over a 12-symbol delimiter alphabet, as a parameter value
        alpha = [b"\\", b'"', b"'", b":", b"*", b" ", b"=", b"a", b"\t", b"\x00", b"1", b"\r"]
        for a in alpha:
            for b in alpha + [b""]:
                for c in alpha + [b""]:
                    v = a + b + c
                    dec.append({"op": "dec", "bytes": (b"AUTH token=" + v).hex()})
                    dec.append({"op": "dec", "bytes": (b"SET_CHAN_ACL id=1 channel=c type=read action=add nids:2=" + v + b" zz").hex()})
                    if b"\x00" not in v:
                        try:
                            v.decode()
                        except UnicodeDecodeError:
                            continue
                        enc.append({"op": "enc", "cap": 256, "kind": 0, "fields": [{"s": v.hex()}]})
                        enc.append({"op": "enc", "cap": 256, "kind": 8, "fields": [{"on": 5}, {"s": b"TIMEOUT".hex()}, {"os": v.hex()}]})
    return dec, enc


def run(tier, replay=None):
    thorough = tier == "thorough"
    r = Rng(seed())
    notes = []
    ok_tr, tr_out = regen()
    if not ok_tr:
        notes.append("translator: " + tr_out)
    hyg = hygiene()
    ok_model, mk1 = coq_make(["Conf/CodecConf.vo", "Model/CodecWf.vo"])
    ok_props, mk2 = coq_make(["Props/C11.vo"]) if ok_model else (False, mk1)
    closed = {}
    if ok_props:
        closed, aout = assumptions(PROP, THEOREMS, "Props.C11")
        if closed is None:
            ok_props, mk2, closed = False, aout, {}
    open_thms = [t for t in THEOREMS if closed.get(t) != "closed"]
    proof_ok = ok_tr and not hyg and ok_props and not open_thms
    broken = []
    if not ok_tr:
        broken.append("translator no longer recognises the source: " + tr_out)
    if hyg:
        broken.append("forbidden vernacular: " + "; ".join(hyg))
    if not ok_props:
        broken.append("Props/C11.vo does not compile: " + (mk2 or "")[-1500:])
    elif open_thms:
        broken.append("theorems not closed under the global context: %s" % {t: closed.get(t) for t in open_thms})

    if thorough and ok_props:
        okc, summ = coqchk(PROP)
        if not okc:
            broken.append("independent checker: " + summ)
    for prof in ("debug", "release"):
        okb, bout = harness_build(prof)
        if not okb:
            log("harness build failed", bout[-3000:])
            rp = write_replay(PROP, "harness_build", {"what": "correspondence harness does not build against /repo", "log": bout[-4000:]})
            write_evidence(PROP, tier, {"obligations": len(THEOREMS), "discharged": 0, "checker_cmd": "make -C coq Props/C11.vo",
                                        "trusted_base": TRUSTED_BASE, "explanation": "harness build failed"}, [], 1)
            print(f"VIOLATION property={PROP} replay={rp} no-failing-input-found")
            return 1

    if replay:
        with open(replay) as f:
            rj = json.load(f)
        dec = [c for c in rj.get("cases", []) if c["op"] == "dec"]
        enc = [c for c in rj.get("cases", []) if c["op"] == "enc"]
    else:
        n_dec, n_enc = (60000, 40000) if thorough else (2500, 1500)
        dec, enc = gen_cases(r, n_dec, n_enc, thorough)
    known = {k["id"]: k for k in load_known(PROP)}
    violations = []   # (what, case)
    known_seen = {}
    disagreements = []
    stats = {"dec": {"ok": 0, "err": 0, "panic": 0}, "enc": {"ok": 0, "toolarge": 0, "other": 0, "invalid": 0, "panic": 0},
             "rt": {"same": 0, "different": 0, "err": 0, "panic": 0}, "classes": {}}
    distinct = set()
    nontrivial = 0

    def search(dec, enc, tag):
        nonlocal nontrivial
        cases = dec + enc
        obs = {}
        for prof in ("debug", "release"):
            o, hout = run_harness("codec", cases, prof, tag=tag, timeout=1800)
            if o is None:
                violations.append(("harness crashed: " + hout, {"cases": cases[:50]}))
                return
            obs[prof] = o
        # --- implementation-side monitors (independent of the model except for the class predicate)
        encs = [(i, c) for i, c in enumerate(cases) if c["op"] == "enc"]
        cls = {}
        if ok_model:
            terms = ["msg_class schema %s" % cg.coq_msg(c) for _, c in encs]
            vals, cout = coq_eval(PRELUDE, terms, kind="N", tag=tag + "cls")
            if vals is None:
                notes.append("class evaluation failed: " + cout[-800:])
            else:
                cls = {i: v for (i, _), v in zip(encs, vals)}
        for prof in ("debug", "release"):
            for i, (c, o) in enumerate(zip(cases, obs[prof])):
                key = json.dumps(c, sort_keys=True)
                if prof == "debug":
                    if key not in distinct:
                        distinct.add(key)
                        if o["r"] == "ok":
                            nontrivial += 1
                if c["op"] == "dec":
                    if prof == "debug":
                        stats["dec"][o["r"]] += 1
                    if o["r"] == "panic":
                        violations.append((f"deserialize panics ({prof} profile)", c))
                else:
                    if prof == "debug":
                        stats["enc"][o["r"]] += 1
                    if o["r"] == "panic":
                        violations.append((f"serialize panics ({prof})", c))
                    if o["r"] in ("ok", "toolarge", "other") and not o.get("det", True):
                        violations.append((f"encoding the same message twice gave different results ({prof})", c))
                    if o["r"] == "ok":
                        b = bytes.fromhex(o["bytes"])
                        if prof == "debug":
                            stats["rt"][o["rt"]] += 1
                        if not b.endswith(b"\n") or (b"\n" in b[:-1] and not fields_have_nl(c)):
                            violations.append((f"encoded message is not exactly one newline-terminated line ({prof})", c))
                        if o["rt"] != "same":
                            k = cls.get(i)
                            if prof == "debug":
                                stats["classes"][str(k)] = stats["classes"].get(str(k), 0) + 1
                            kid = CLASS_NAMES.get(k)
                            if k in (7, 8, 9, 10):
                                continue       # outside the property's quantifier (not a Rust string / frame delimiter)
                            if kid and kid in known:
                                known_seen.setdefault(kid, c)
                            else:
                                violations.append((f"round trip fails outside the known classes (class {k}, {prof}): decode(encode m) is {o['rt']}", c))
        # --- correspondence: Coq decides agreement
        if ok_model:
            terms = []
            for prof, md in (("debug", "Checked"), ("release", "Wrapping")):
                for c, o in zip(cases, obs[prof]):
                    if c["op"] == "dec":
                        terms.append("dec_case %s %s %s" % (md, coq_bytes(bytes.fromhex(c["bytes"])), cg.coq_dec_obs(o)))
                    elif o["r"] == "invalid":
                        terms.append("true")
                    else:
                        terms.append("enc_case %s %d%%nat %s" % (cg.coq_msg(c), o.get("cap", c["cap"]), cg.coq_enc_obs(o)))
            bad, cout = coq_eval(PRELUDE, terms, kind="bool", tag=tag + "conf")
            if bad is None:
                broken.append("correspondence could not be evaluated: " + cout[-800:])
            else:
                for j in bad:
                    prof = "debug" if j < len(cases) else "release"
                    i = j % len(cases)
                    disagreements.append({"profile": prof, "case": cases[i], "observed": obs[prof][i]})
        return len(cases)

    total = search(dec, enc, "q") or 0
    if (broken or disagreements) and not violations and not replay:
        # a proof obligation or the correspondence broke: directed search for a failing input
        log("proof/correspondence broken; extended search")
        seeds = [d["case"] for d in disagreements[:200]]
        extra_dec, extra_enc = gen_cases(Rng(seed() + 7919), 20000, 12000, True)
        for s in seeds:
            if s["op"] == "dec":
                b = bytes.fromhex(s["bytes"])
                for _ in range(20):
                    extra_dec.append({"op": "dec", "bytes": cg.mutate(r, b).hex()})
        total += search(extra_dec, extra_enc, "x") or 0

    coverage = {
        "obligations": len(THEOREMS), "discharged": len([t for t in THEOREMS if closed.get(t) == "closed"]) if proof_ok or ok_props else 0,
        "checker_cmd": "python3 translator/gen.py && make -C coq -j16 Props/C11.vo Conf/CodecConf.vo && coqc Print Assumptions (work/assm_C11.v)",
        "trusted_base": TRUSTED_BASE,
        "theorems": THEOREMS, "print_assumptions": closed,
        "evaluations": total, "distinct_nontrivial": nontrivial,
        "rule": "decode inputs: directed + generated mostly-valid lines over all 45 kinds + mutations + random bytes; encode inputs: random messages of every kind with strings over a delimiter-heavy alphabet; distinct = distinct case JSON; non-trivial = implementation returned a message / encoded bytes. Each case is run on the debug (overflow-checked) and release harness and compared with the Coq model (Checked / Wrapping) inside coqc.",
        "traces_validated_against_impl": total * 2, "disagreements": len(disagreements),
        "distribution": stats, "samples": (dec[:2] + dec[60:62] + enc[:2]),
        "known_findings_reproduced": sorted(known_seen), "notes": notes, "exhaustive": False,
    }
    assum = ["model of deserialize.rs/serialize.rs/protocol-macros is hand-written (coq/Model/Codec.v) and tied to the code by the correspondence above; message schema, enum tables and scanner constants are regenerated from the sources on every run",
             "Rust std behaviours modelled, not verified: str::from_utf8, <uN as FromStr>, bool::from_str, Cursor write semantics, fmt of integers"]
    if violations:
        what, c = violations[0]
        rp = write_replay(PROP, "violation", {"what": what, "cases": [c], "all": [w for w, _ in violations[:20]], "broken": broken})
        write_evidence(PROP, tier, coverage, assum, len(violations))
        print(f"VIOLATION property={PROP} replay={rp}")
        log(what, json.dumps(c)[:400])
        return 1
    if broken or disagreements:
        rp = write_replay(PROP, "broken", {"what": "no failing input found; the following no longer checks", "broken": broken,
                                           "correspondence_disagreements": disagreements[:20], "cases": [d["case"] for d in disagreements[:20]]})
        write_evidence(PROP, tier, coverage, assum, 1)
        print(f"VIOLATION property={PROP} replay={rp} no-failing-input-found")
        return 1
    for kid in sorted(known):
        if kid in known_seen:
            print(f"KNOWN-FINDING: property={PROP} {kid} {known[kid]['what']}")
        else:
            log(f"known finding {kid} was not reproduced in this run")
    write_evidence(PROP, tier, coverage, assum, 0)
    return 0
