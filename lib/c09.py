"""C09 — decided on the server model; see lib/srvprops.py and coq/Props/C09.v"""
import serverlib as sl
import srvprops

PROP = "C09"
THEOREMS = ["C09_only_success", "C09_preauth_moves", "C09_client_success_only", "C09_client_continue_only", "C09_link_transparent", "C09_outcome_success_only", "C09_concurrent_authentications_transparent", "C09_concurrent_fail_closed"]


LINK_NOTE = "Modulator-link stage: the real S2M/M2S dispatchers (crates/modulator/src/conn.rs) behind the real connection engine are fed raw byte chunks (handshakes with right/wrong/missing secret and version, the whole three-link vocabulary in each phase, payloads, scripted modulator outcomes) and compared chunk by chunk with Model/Link.v inside coqc (Conf/LinkConf.link_conf); the real S2mClient (crates/modulator/src/client.rs) is run against a scripted wire peer (sensible, contradictory, mis-correlated, malformed, missing replies, dropped links) and each call's result is compared with Model/Link.v's reply mapping (Conf/LinkConf.client_conf); a share of the server histories runs with the real S2M/M2S wire path between server and modulator (unix sockets), including histories in which the modulator process goes away (listener gone, links ended): every delegated decision must fail closed."


def startup_stage(thorough, violations, stats):
    """the modulator is unreachable at the very moment the server asks it which operations it performs (the dispatcher
    factory is being built): start-up must fail, or the server must still insist on AUTH — it must never come up in open
    mode, where IDENTIFY makes anybody anyone."""
    import copy
    from common import Rng, seed
    r = Rng(seed() + 17)
    cases = []
    for n in (1, 2, 99):
        for mod in (sl.MOD_CONFIGS[-1], {"ops": ["auth"], "proto": "P/2"}):
            m = copy.deepcopy(mod)
            m["ops_fail"] = n
            cfg = sl.base_cfg(r, m)
            cfg.update({"max_conns": 16})
            ops = [{"t": "open", "k": 1},
                   {"t": "send", "k": 1, "bytes": sl.frame("CONNECT", [("version", 1), ("heartbeat_interval", 0)]).hex(), "script": []},
                   {"t": "send", "k": 1, "bytes": sl.frame("IDENTIFY", [("username", "alice")]).hex(), "script": []},
                   {"t": "open", "k": 2},
                   {"t": "send", "k": 2, "bytes": sl.frame("CONNECT", [("version", 1), ("heartbeat_interval", 0)]).hex(), "script": []},
                   {"t": "send", "k": 2, "bytes": sl.frame("AUTH", [("token", "tok-bob")]).hex(), "script": [{"auth_success": b"bob".hex()}]}]
            cases.append({"cfg": cfg, "ops": ops, "nomodel": True})
    obs, out = sl.run_histories(cases, "debug", tag="c09start", timeout=300)
    if obs is None:
        violations.append((PROP, "start-up histories crashed or hung: " + out[-200:], cases[0], 0))
        return
    stats["startup_histories"] = len(cases)
    stats["startup_refused"] = sum(1 for ob in obs if "setup_error" in ob)
    for c, ob in zip(cases, obs):
        if "ops" not in ob:
            continue            # the factory could not be built: fail closed
        for t, (op, o) in enumerate(zip(c["ops"], ob["ops"])):
            for k, v in o["conns"].items():
                for f in v["frames"]:
                    if "undecodable" in f:
                        continue
                    if sl.frame_name(f) == "IDENTIFY_ACK":
                        violations.append((PROP, "the modulator (which performs Auth) could not be asked for its operations when the server was built: the server came up in open mode and acknowledged IDENTIFY", c, t))
                    if sl.frame_name(f) == "CONNECT_ACK" and sl.frame_get(f, "auth_required") is not True:
                        violations.append((PROP, "the modulator (which performs Auth) could not be asked for its operations when the server was built: CONNECT_ACK announces auth_required=false", c, t))


def token_injection_histories(r, thorough):
    """two connections authenticate at the same time through the real S2M wire path; the second one's token contains a blank
    the wire format must quote (tab, vertical tab, form feed, CR, space) followed by text that looks like a parameter
    (`id=<n>`, `token=..`): the modulator must see exactly that token, and its verdict must reach the connection that sent it,
    never the request that happens to be pending under that id"""
    cases = []
    blanks = [b"\x0b", b"\x0c", b"\t", b"\r", b" "]
    for i in range(15 if thorough else 5):
        cfg = sl.base_cfg(r, {"ops": ["auth"], "proto": "P/1"})
        cfg.update({"max_conns": 16, "max_inflight": 10})
        bl = blanks[i % len(blanks)]
        n = 1 + (i // len(blanks)) % 3
        ops = [{"t": "open", "k": 1},
               {"t": "send", "k": 1, "bytes": sl.frame("CONNECT", [("version", 1), ("heartbeat_interval", 0)]).hex(), "script": []},
               {"t": "send", "k": 1, "bytes": sl.frame("AUTH", [("token", "victim-token")]).hex(), "script": [{"park": 1}]},
               {"t": "open", "k": 2},
               {"t": "send", "k": 2, "bytes": sl.frame("CONNECT", [("version", 1), ("heartbeat_interval", 0)]).hex(), "script": []},
               {"t": "send", "k": 2, "bytes": sl.frame("AUTH", [("token", b"x" + bl + b"id=%d" % n)]).hex(), "script": [{"auth_success": b"mallory".hex()}]},
               {"t": "release", "id": 1, "outcome": "auth_fail"},
               {"t": "advance", "ms": 200}]
        # through the real wire path, on ONE link (so that both requests are pending on the same connection), with a client
        # time-out long enough for the first request to be still pending when the second one is answered
        m = cfg["mod"]
        m["ops"] = ["auth", "fwd-broadcast-payload", "recv-private-payload"]
        m["via"] = "s2m"
        m["link"] = dict(sl.VIA_LINK, client_timeout_ms=5000, idle_conns=1)
        cfg.update({"min_keepalive_ms": 3600000, "keepalive_ms": 3600000, "settle_ms": 100})
        cases.append({"cfg": cfg, "ops": ops, "nomodel": True})
    return cases


def run(tier, replay=None):
    return srvprops.run(PROP, THEOREMS, tier, replay, extra_gen=lambda r, th: sl.outage_histories(r, th) + token_injection_histories(r, th), link=("link", "client"), extra_stage=startup_stage,
                        rule_note=LINK_NOTE + " Start-up stage: the modulator's operations() fails while the dispatcher factory is built (once, twice, always): the server must not come up in open mode.")
