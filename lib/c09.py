"""C09 — decided on the server model; see lib/srvprops.py and coq/Props/C09.v"""
import srvprops

PROP = "C09"
THEOREMS = ["C09_only_success", "C09_preauth_moves"]


def run(tier, replay=None):
    return srvprops.run(PROP, THEOREMS, tier, replay)
