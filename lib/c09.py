"""C09 — decided on the server model; see lib/srvprops.py and coq/Props/C09.v"""
import serverlib as sl
import srvprops

PROP = "C09"
THEOREMS = ["C09_only_success", "C09_preauth_moves", "C09_client_success_only", "C09_client_continue_only", "C09_link_transparent", "C09_outcome_success_only", "C09_concurrent_authentications_transparent", "C09_concurrent_fail_closed"]


LINK_NOTE = "Modulator-link stage: the real S2M/M2S dispatchers (crates/modulator/src/conn.rs) behind the real connection engine are fed raw byte chunks (handshakes with right/wrong/missing secret and version, the whole three-link vocabulary in each phase, payloads, scripted modulator outcomes) and compared chunk by chunk with Model/Link.v inside coqc (Conf/LinkConf.link_conf); the real S2mClient (crates/modulator/src/client.rs) is run against a scripted wire peer (sensible, contradictory, mis-correlated, malformed, missing replies, dropped links) and each call's result is compared with Model/Link.v's reply mapping (Conf/LinkConf.client_conf); a share of the server histories runs with the real S2M/M2S wire path between server and modulator (unix sockets), including histories in which the modulator process goes away (listener gone, links ended): every delegated decision must fail closed."


def run(tier, replay=None):
    return srvprops.run(PROP, THEOREMS, tier, replay, extra_gen=sl.outage_histories, link=("link", "client"), rule_note=LINK_NOTE)
