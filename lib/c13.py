"""C13 — no sequence of requests can wedge the server."""
import concurrent.futures
import itertools
import json
import os

import serverlib as sl
from common import (coqchk, Rng, assumptions, coq_make, harness_build, harness_bin, hygiene, load_known, log, regen, seed, sh,
                    write_evidence, write_replay, TRUSTED_BASE, WORK)

PROP = "C13"
THEOREMS = ["C13_model_smoke", "C13_no_wedge_all_schedules", "C13_current_handlers_never_wedge", "C13_all_handlers_disciplined", "C13_blocked_thread_resumes",
            "C13_parked_task_holds_no_map_lock", "C13_timeout_releases_locks", "C13_guard_across_await_deadlock_refuted", "C13_old_handler_undisciplined", "C13_source_no_map_guard_across_await",
            "C13_deadlock_free_from_every_reachable_state", "C13_current_handlers_deadlock_free", "C13_progress_or_done", "C13_extended_invariant_preserved",
            "C13_deadlock_free_smoke", "C13_source_one_channel_lock_at_a_time", "C13_message_pool_never_exhausted", "C13_source_write_budget",
            "C13_source_lock_programs_disciplined", "C13_source_handlers_never_wedge", "C13_source_handlers_deadlock_free", "C13_source_lock_programs_cover", "C13_idle_connection_has_its_whole_window", "C13_source_inflight_decrements_live_counter", "C13_conc_always_drains", "C13_source_segment_layout"]

REQS = {
    "JOIN_new": lambda i: sl.frame("JOIN", [("id", i), ("channel", "!c3@localhost")]),
    "JOIN_behalf": lambda i: sl.frame("JOIN", [("id", i), ("channel", "!c2@localhost"), ("on_behalf", "bob@localhost")]),
    "LEAVE_owner": lambda i: sl.frame("LEAVE", [("id", i), ("channel", "!c1@localhost")]),
    "LEAVE_member": lambda i: sl.frame("LEAVE", [("id", i), ("channel", "!c2@localhost")]),
    "JOIN_c2": lambda i: sl.frame("JOIN", [("id", i), ("channel", "!c2@localhost")]),
    "JOIN_c1": lambda i: sl.frame("JOIN", [("id", i), ("channel", "!c1@localhost")]),
    "CHANNELS_owner": lambda i: sl.frame("CHANNELS", [("id", i), ("owner", True)]),
    "CHANNELS": lambda i: sl.frame("CHANNELS", [("id", i)]),
    "MEMBERS": lambda i: sl.frame("MEMBERS", [("id", i), ("channel", "!c1@localhost")]),
    "BROADCAST": lambda i: sl.frame("BROADCAST", [("id", i), ("channel", "!c1@localhost"), ("length", 4)], b"data"),
    "SET_ACL": lambda i: sl.frame("SET_CHAN_ACL", [("id", i), ("channel", "!c1@localhost"), ("type", "read"), ("action", "add"), ("nids", ["bob@localhost"])]),
    "GET_ACL": lambda i: sl.frame("GET_CHAN_ACL", [("id", i), ("channel", "!c1@localhost"), ("type", "read")]),
    "SET_CONFIG": lambda i: sl.frame("SET_CHAN_CONFIG", [("id", i), ("channel", "!c1@localhost"), ("max_clients", 5), ("max_payload_size", 0)]),
    "GET_CONFIG": lambda i: sl.frame("GET_CHAN_CONFIG", [("id", i), ("channel", "!c1@localhost")]),
}
PATTERNS = ["ok", "park1_release", "park1_never", "park2_reverse", "park2_inorder", "err1", "park1_err"]
REQUEST_TIMEOUT = 2000
MAX_INFLIGHT = 6


def build_case(prog, pattern, second=None):
    cfg = {"domain": "localhost", "mod": {"ops": ["fwd-broadcast-payload", "fwd-event"], "proto": "P/1"},
           "request_timeout_ms": REQUEST_TIMEOUT, "max_inflight": MAX_INFLIGHT, "max_clients": 10, "max_subs": 10,
           "max_payload": 1024, "max_message": 1024, "max_conns": 16, "budget": 1 << 22, "keepalive_ms": 3600000,
           "min_keepalive_ms": 1000}
    ops = []
    def conn(k, user, chans):
        ops.append({"t": "open", "k": k})
        ops.append({"t": "send", "k": k, "bytes": sl.frame("CONNECT", [("version", 1), ("heartbeat_interval", 0)]).hex()})
        ops.append({"t": "send", "k": k, "bytes": sl.frame("IDENTIFY", [("username", user)]).hex()})
        for j, ch in enumerate(chans):
            ops.append({"t": "send", "k": k, "bytes": sl.frame("JOIN", [("id", 50 + j), ("channel", ch)]).hex()})
    conn(1, "alice", ["!c1@localhost", "!c2@localhost"])
    conn(2, "bob", ["!c1@localhost"])
    script = {"ok": [], "park1_release": [{"park": 1}], "park1_never": [{"park": 1}], "park2_reverse": [{"park": 1}, {"park": 2}],
              "park2_inorder": [{"park": 1}, {"park": 2}], "err1": ["err"], "park1_err": [{"park": 1}]}[pattern]
    data = b"".join(REQS[name](100 + i) for i, name in enumerate(prog))
    ops.append({"t": "send", "k": 1, "bytes": data.hex(), "script": script, "program": True})
    if second:
        ops.append({"t": "send", "k": 2, "bytes": REQS[second](200).hex(), "script": [], "program2": True})
    if pattern == "park1_release":
        ops.append({"t": "release", "id": 1, "outcome": "ok"})
    elif pattern == "park1_err":
        ops.append({"t": "release", "id": 1, "outcome": "err"})
    elif pattern == "park2_reverse":
        ops.append({"t": "release", "id": 2, "outcome": "ok"})
        ops.append({"t": "release", "id": 1, "outcome": "ok"})
    elif pattern == "park2_inorder":
        ops.append({"t": "release", "id": 1, "outcome": "ok"})
        ops.append({"t": "release", "id": 2, "outcome": "ok"})
    ops.append({"t": "advance", "ms": REQUEST_TIMEOUT + 500, "deadline": True})
    # canary: other connections and new connections are still served
    ops.append({"t": "send", "k": 2, "bytes": sl.frame("CHANNELS", [("id", 900)]).hex(), "canary": "bob"})
    ops.append({"t": "open", "k": 3})
    ops.append({"t": "send", "k": 3, "bytes": sl.frame("CONNECT", [("version", 1), ("heartbeat_interval", 0)]).hex()})
    ops.append({"t": "send", "k": 3, "bytes": sl.frame("IDENTIFY", [("username", "carol")]).hex(), "canary": "carol_id"})
    ops.append({"t": "send", "k": 3, "bytes": sl.frame("JOIN", [("id", 1), ("channel", "!c9@localhost")]).hex(), "canary": "carol_join"})
    ops.append({"t": "send", "k": 3, "bytes": sl.frame("BROADCAST", [("id", 2), ("channel", "!c9@localhost"), ("length", 2)], b"ok").hex(), "canary": "carol_bcast"})
    # slots: a full window of pipelined requests on the program's connection must still be accepted
    burst = b"".join(sl.frame("CHANNELS", [("id", 300 + i)]) for i in range(MAX_INFLIGHT))
    ops.append({"t": "send", "k": 1, "bytes": burst.hex(), "slots": True})
    # ... and a full window of requests that are all IN FLIGHT AT ONCE (each suspended in its own modulator call): every one
    # of them must be admitted — an in-flight counter that drifted upwards refuses the last ones and drops the connection
    wave = b"".join(sl.frame("JOIN", [("id", 400 + i), ("channel", "!w%d@localhost" % i)]) for i in range(MAX_INFLIGHT))
    ops.append({"t": "send", "k": 1, "bytes": wave.hex(), "script": [{"park": 10 + i} for i in range(MAX_INFLIGHT)], "wave": True})
    for i in range(MAX_INFLIGHT):
        ops.append({"t": "release", "id": 10 + i, "outcome": "ok", "wave_release": i == MAX_INFLIGHT - 1})
    return {"cfg": cfg, "ops": ops, "prog": list(prog), "pattern": pattern, "second": second}


def run_program(args):
    idx, case = args
    cin = os.path.join(WORK, f"c13_{idx}_in.json")
    cout = os.path.join(WORK, f"c13_{idx}_out.json")
    with open(cin, "w") as f:
        json.dump([case], f)
    if os.path.exists(cout):
        os.remove(cout)
    rc, out = sh(["timeout", "25", harness_bin("debug"), "server", cin, cout], timeout=40)
    res = None
    if rc == 0 and os.path.exists(cout):
        with open(cout) as f:
            res = json.load(f)[0]
    for p in (cin, cout):
        if os.path.exists(p):
            os.remove(p)
    return idx, rc, res


def frames_of(o, k):
    return [f for f in o["conns"].get(str(k), {"frames": []})["frames"] if "undecodable" not in f]


def analyse(case, rc, ob, known, known_seen):
    v = []
    if rc != 0 or ob is None or "ops" not in ob:
        v.append(f"the in-process server wedged (watchdog killed the run, rc={rc}): program {case['prog']} pattern {case['pattern']}")
        return v
    ops = case["ops"]
    closed1 = False
    closed_before_wave = False
    wave_acks, wave_reported = set(), False
    answered = set()
    deadline_passed = False
    prog_ids = [100 + i for i in range(len(case["prog"]))]
    for op, o in zip(ops, ob["ops"]):
        for k, e in o.get("ended", {}).items():
            if e.get("panicked"):
                v.append(f"connection task {k} panicked")
        c1 = o["conns"].get("1")
        if c1 and c1["closed"]:
            closed1 = True
        if not deadline_passed:
            for f in frames_of(o, 1):
                fid = sl.frame_get(f, "id")
                if fid in prog_ids:
                    answered.add(fid)
        if op.get("deadline"):
            deadline_passed = True
            missing = [i for i in prog_ids if i not in answered]
            if missing and not closed1:
                if case["pattern"] == "park1_never" and "K13b" in known:
                    known_seen["K13b"] = case
                else:
                    v.append(f"requests {missing} neither answered nor their connection closed within request_timeout ({case['prog']}, {case['pattern']})")
        if op.get("canary") == "bob" and not any(sl.frame_name(f) == "CHANNELS_ACK" for f in frames_of(o, 2)):
            v.append(f"another connection is no longer served after the program ({case['prog']}, {case['pattern']})")
        if op.get("canary") == "carol_id" and not any(sl.frame_name(f) == "IDENTIFY_ACK" for f in frames_of(o, 3)):
            v.append("a new connection cannot identify after the program")
        if op.get("canary") == "carol_join" and not any(sl.frame_name(f) == "JOIN_ACK" for f in frames_of(o, 3)):
            v.append("a new connection cannot join after the program")
        if op.get("canary") == "carol_bcast" and not any(sl.frame_name(f) == "BROADCAST_ACK" for f in frames_of(o, 3)):
            v.append("a new connection cannot broadcast after the program")
        if op.get("slots") and not closed1:
            got = {sl.frame_get(f, "id") for f in frames_of(o, 1) if sl.frame_name(f) == "CHANNELS_ACK"}
            if c1 and c1["closed"]:
                v.append(f"a full window of {MAX_INFLIGHT} pipelined requests is refused after the program: in-flight slots were not returned ({case['prog']}, {case['pattern']})")
            elif len(got) != MAX_INFLIGHT:
                v.append(f"only {len(got)} of {MAX_INFLIGHT} window requests answered after the program ({case['prog']}, {case['pattern']})")
        if (op.get("wave") or "wave_release" in op) and not closed_before_wave:
            wave_acks |= {sl.frame_get(f, "id") for f in frames_of(o, 1) if sl.frame_name(f) == "JOIN_ACK" and (sl.frame_get(f, "id") or 0) >= 400}
            if c1 and c1["closed"] and not wave_reported:
                wave_reported = True
                v.append(f"a window of {MAX_INFLIGHT} requests in flight at once is not admitted after the program (the connection is dropped): the in-flight counter no longer returns to zero ({case['prog']}, {case['pattern']})")
            if op.get("wave_release") and not wave_reported and len(wave_acks) != MAX_INFLIGHT:
                v.append(f"only {len(wave_acks)} of {MAX_INFLIGHT} requests that were in flight at once were answered after the program ({case['prog']}, {case['pattern']})")
        if op.get("slots"):
            closed_before_wave = closed1
    return v


def run(tier, replay=None):
    thorough = tier == "thorough"
    r = Rng(seed())
    broken = []
    ok_tr, tr_out = regen()
    if not ok_tr:
        broken.append("translator: " + tr_out)
    hyg = hygiene()
    if hyg:
        broken.append("forbidden vernacular: " + "; ".join(hyg))
    ok_props, mk2 = coq_make(["Props/C13.vo"])
    closed = {}
    if ok_props:
        closed, aout = assumptions(PROP, THEOREMS, "Props.C13")
        if closed is None:
            ok_props, mk2, closed = False, aout, {}
    if not ok_props:
        broken.append("Props/C13.vo does not compile: " + (mk2 or "")[-1500:])
    elif [t for t in THEOREMS if closed.get(t) != "closed"]:
        broken.append("not closed under the global context: %s" % [t for t in THEOREMS if closed.get(t) != "closed"])
    if thorough and ok_props:
        okc, summ = coqchk(PROP)
        if not okc:
            broken.append("independent checker: " + summ)
    okb, bout = harness_build("debug")
    if not okb:
        rp = write_replay(PROP, "harness_build", {"what": "harness does not build against /repo", "log": bout[-4000:]})
        write_evidence(PROP, tier, {"obligations": len(THEOREMS), "discharged": 0, "checker_cmd": "make", "trusted_base": TRUSTED_BASE}, [], 1)
        print(f"VIOLATION property={PROP} replay={rp} no-failing-input-found")
        return 1
    known = {k["id"]: k for k in load_known(PROP)}
    known_seen = {}
    names = list(REQS)
    if replay:
        with open(replay) as f:
            cases = json.load(f).get("cases", [])
    else:
        progs = [(a,) for a in names] + list(itertools.product(names, names))
        allc = [(p, pat, None) for p in progs for pat in PATTERNS]
        triples = [(tuple(r.choice(names) for _ in range(3)), r.choice(PATTERNS), r.choice(names + [None])) for _ in range(200)]
        # always: the historical deadlock witness and its neighbours
        must = [(("LEAVE_owner", "CHANNELS_owner"), pat, None) for pat in PATTERNS] + [(("LEAVE_member", "CHANNELS_owner"), "park1_release", None),
                                                                                      (("JOIN_new", "CHANNELS_owner"), "park1_release", None)]
        # same-channel pairs: the second request meets the channel (its lock, its map entry) while the first is suspended
        same = [("LEAVE_member", "JOIN_c2"), ("LEAVE_member", "JOIN_behalf"), ("LEAVE_member", "LEAVE_member"), ("LEAVE_owner", "JOIN_c1"),
                ("LEAVE_owner", "MEMBERS"), ("LEAVE_owner", "BROADCAST"), ("JOIN_new", "JOIN_new"), ("JOIN_behalf", "LEAVE_member"),
                ("JOIN_behalf", "JOIN_c2"), ("LEAVE_member", "CHANNELS")]
        must += [(pq, pat, None) for pq in same for pat in ("park1_release", "park1_never", "park1_err")]
        # two requests of one connection suspended together and answered in the order they arrived
        must += [(pq, "park2_inorder", None) for pq in (("JOIN_new", "JOIN_new"), ("LEAVE_member", "JOIN_behalf"), ("BROADCAST", "BROADCAST"), ("JOIN_new", "BROADCAST"))]
        must += [(("LEAVE_member",), "park1_release", "JOIN_c2"), (("LEAVE_member",), "park1_never", "JOIN_behalf"), (("JOIN_new",), "park1_release", "JOIN_new")]
        if thorough:
            sel = must + allc + triples
        else:
            sel = must + r.sample(allc, 70) + triples[:20]
        cases = [build_case(p, pat, sec) for p, pat, sec in sel]
    stats = {"programs": len(cases), "by_pattern": {}, "by_len": {}, "wedged": 0, "known_silent_timeouts": 0}
    violations = []
    with concurrent.futures.ThreadPoolExecutor(max_workers=16) as ex:
        results = list(ex.map(run_program, list(enumerate(cases))))
    distinct = set()
    for (idx, rc, ob), case in zip(results, cases):
        stats["by_pattern"][case["pattern"]] = stats["by_pattern"].get(case["pattern"], 0) + 1
        stats["by_len"][str(len(case["prog"]))] = stats["by_len"].get(str(len(case["prog"])), 0) + 1
        distinct.add((tuple(case["prog"]), case["pattern"], case.get("second")))
        before = len(known_seen)
        for what in analyse(case, rc, ob, known, known_seen):
            if "wedged" in what:
                stats["wedged"] += 1
            violations.append((what, case))
    # afterwards-still-served, for endings that go through error paths: connections that end through the write-error path
    # max_connections times, requests that time out in a silent modulator max_inflight_requests times
    if not replay:
        import srvmon
        extra = sl.slot_histories(r, thorough) + sl.inflight_histories(r, thorough)
        eobs, eout = sl.run_histories(extra, "debug", tag="c13x", timeout=900)
        if eobs is None:
            violations.append(("the in-process server wedged or crashed on the error-path histories: " + eout[-200:], extra[0]))
        else:
            stats["error_path_histories"] = len(extra)
            for c, ob in zip(extra, eobs):
                for (tagv, what, t) in srvmon.Tracker(c, ob).run() if "ops" in ob else [("C14", "setup error", 0)]:
                    if tagv == "C14":
                        violations.append(("afterwards the server no longer serves normally: " + what, c))
        # pipelined bursts next to members that do not read, on a small connection table: the shared message-buffer pool is
        # of the order of the backlog; everybody else must still be served (Model/WriteBudget.v)
        import c15
        bl = c15.backlog_histories(r, 12 if thorough else 3)
        bobs, bout = sl.run_histories(bl, "debug", tag="c13bl", timeout=900)
        if bobs is None:
            violations.append(("the in-process server wedged or crashed on the deep-backlog histories: " + bout[-200:], bl[0]))
        else:
            stats["deep_backlog_histories"] = len(bl)
            for c, ob in zip(bl, bobs):
                mine = []
                c15.check_backlog(c, ob, mine)
                violations.extend(("wedged: " + w, cc) for (w, cc) in mine)
        # interleaved histories (lib/conclib.py): requests, clean-ups and time-outs suspended in the modulator while a BYSTANDER
        # asks for something that needs no channel lock: it is answered at once; afterwards a full window is served
        import conclib as cl
        ih = cl.owner_leave_family(r, thorough) + cl.cleanup_family(r, thorough) + cl.timeout_family(r, thorough) + cl.overlap_join_family(r, thorough)
        iobs, spinning, blocked = cl.run_conc(ih, "c13i")
        stats["interleaved_histories"] = len(ih)
        for i in blocked:
            violations.append(("wedged: the server process does not come back and is asleep (a blocked worker)", ih[i]))
        for i, (c, ob) in enumerate(zip(ih, iobs)):
            if i in spinning or i in blocked:
                continue
            for (tagv, what, t) in cl.monitor(c, ob):
                if tagv == "C13":
                    violations.append((what, c))
    coverage = {
        "obligations": len(THEOREMS), "discharged": len([t for t in THEOREMS if closed.get(t) == "closed"]),
        "checker_cmd": "python3 translator/gen.py && make -C coq -j16 Props/C13.vo && coqc work/assm_C13.v",
        "trusted_base": TRUSTED_BASE, "theorems": THEOREMS, "print_assumptions": closed,
        "evaluations": len(cases), "distinct_nontrivial": len(distinct),
        "rule": "programs of 1-3 pipelined requests (12 request kinds incl. owner leave, on-behalf join, CHANNELS owner=true) on one connection, optionally one more on a second connection, against the real in-process server with a modulator declaring fwd-broadcast-payload+fwd-event whose calls follow a latency/failure pattern (immediate, first call parked then released, parked for ever, two parked and released in reverse order, failing, parked then failing); each program runs in its own process under a 25 s watchdog; afterwards virtual time passes the request timeout and canary connections (existing and new) plus a full in-flight window on the program's connection must be served. thorough = all singles and pairs x all patterns + sampled triples",
        "traces_validated_against_impl": len(cases), "distribution": stats, "samples": [{"prog": cases[0]["prog"], "pattern": cases[0]["pattern"]}] if cases else [],
        "known_findings_reproduced": sorted(known_seen), "exhaustive": bool(thorough),
    }
    assum = ["the lock-protocol table of Model/Locks.v is transcribed by hand from channel/mod.rs, c2s/router.rs and notifier/mod.rs; it is tied to the code only indirectly (the programs above exercise every handler under every suspension pattern on one worker thread)",
             "OS-level scheduling, parking_lot/tokio fairness and multi-thread interleavings cannot be exhibited by the model; 'other connections are still served' is established on the implementation for the enumerated programs only"]
    if violations:
        what, c = violations[0]
        rp = write_replay(PROP, "violation", {"what": what, "cases": [c], "all": [w for w, _ in violations[:20]], "broken": broken})
        write_evidence(PROP, tier, coverage, assum, len(violations))
        print(f"VIOLATION property={PROP} replay={rp}")
        log(what)
        return 1
    if broken:
        rp = write_replay(PROP, "broken", {"what": "no failing input found; the following no longer checks", "broken": broken})
        write_evidence(PROP, tier, coverage, assum, 1)
        print(f"VIOLATION property={PROP} replay={rp} no-failing-input-found")
        return 1
    for kid in sorted(known):
        if kid in known_seen:
            print(f"KNOWN-FINDING: property={PROP} {kid} {known[kid]['what']}")
    write_evidence(PROP, tier, coverage, assum, 0)
    return 0
