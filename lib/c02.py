"""C02 — decided on the server model; see lib/srvprops.py and coq/Props/C02.v"""
import srvprops

PROP = "C02"
THEOREMS = ["C02_model_smoke"]


def run(tier, replay=None):
    return srvprops.run(PROP, THEOREMS, tier, replay)
