"""C02 — decided on the server model; see lib/srvprops.py and coq/Props/C02.v"""
import srvprops

PROP = "C02"
THEOREMS = ["C02_complete_exactly_once", "C02_complete_whole_step", "C02_each_connection_once", "C02_router_wellformed", "C02_source_no_lossy_map_lookup"]


import serverlib as sl


def acl_gen(r, thorough):
    return sl.acl_histories(r, thorough, types=("read",)) + sl.stalled_resume_histories(r, thorough)


def run(tier, replay=None):
    return srvprops.run(PROP, THEOREMS, tier, replay, extra_gen=acl_gen,
                        rule_note="plus directed ACL histories (multi-domain allow-lists edited by add/remove batches, then probed by broadcasts) and readers that stall on a tiny socket buffer while large broadcasts queue up and other clients cycle the message-buffer pool, then read on (every frame intact and attributed correctly)")
