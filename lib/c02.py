"""C02 — decided on the server model; see lib/srvprops.py and coq/Props/C02.v"""
import srvprops

PROP = "C02"
THEOREMS = ["C02_complete_exactly_once", "C02_complete_whole_step", "C02_each_connection_once", "C02_router_wellformed"]


def run(tier, replay=None):
    return srvprops.run(PROP, THEOREMS, tier, replay)
