"""C02 — decided on the server model; see lib/srvprops.py and coq/Props/C02.v"""
import srvprops

PROP = "C02"
THEOREMS = ["C02_complete_exactly_once", "C02_complete_whole_step", "C02_each_connection_once", "C02_router_wellformed", "C02_source_no_lossy_map_lookup", "C02_source_segment_layout", "C02_conc_broadcast_complete"]


import serverlib as sl


def acl_gen(r, thorough):
    return sl.acl_histories(r, thorough, types=("read",)) + sl.stalled_resume_histories(r, thorough) + sl.two_list_histories(r, thorough)


def router_contention(thorough, violations, stats):
    """supporting evidence for the parts no single-threaded history can reach: one thread routes to a registered user while
    another keeps writing the same connection-table shard; every routed message must be delivered exactly once"""
    from common import run_harness
    cases = [{"routes": 300000 if not thorough else 3000000, "churn": 300000 if not thorough else 3000000, "shards": sh} for sh in (1, 2)]
    obs, out = run_harness("router", cases, "debug", tag="c02rt", timeout=900)
    if obs is None:
        violations.append((PROP, "router contention run crashed or hung: " + out[-300:], cases[0], 0))
        return
    stats["router_contention_runs"] = len(cases)
    for c, o in zip(cases, obs):
        if o["delivered"] != o["routed"] or o["errors"] or not o["churn_ok"]:
            violations.append((PROP, f"{o['routed']} messages routed to a registered user while another thread registered / unregistered other users in the same table: {o['delivered']} delivered, {o['errors']} errors", c, 0))


def run(tier, replay=None):
    return srvprops.run(PROP, THEOREMS, tier, replay, extra_gen=acl_gen, extra_stage=router_contention,
                        rule_note="plus directed ACL histories (multi-domain allow-lists edited by add/remove batches, then probed by broadcasts) and readers that stall on a tiny socket buffer while large broadcasts queue up and other clients cycle the message-buffer pool, then read on (every frame intact and attributed correctly)")
