"""History generation, harness I/O and Coq term printing for the server-level correspondence
(used by C01-C09, C12-C14, C17, C18)."""
import json

import codecgen as cg
from common import coq_bytes, coq_eval, run_harness

PRELUDE = ("From NW Require Import Base.Bytes Model.SchemaTypes Gen.Schema Model.Codec Model.Ids Model.Server "
           "Conf.CodecConf Conf.ServerConf.\n")

USERS = ["alice", "bob", "carol", "dave"]
CHANNELS = ["!c1@localhost", "!c2@localhost", "!c3@localhost"]
ODD_CHANNELS = ["!c1@other.example.org", "c1", "!@localhost", "!c-1@localhost", "!c9@localhost", "!c1@LOCALHOST", "!c1@localhost:80"]
ODD_USERNAMES = [b"", b"  ", b" alice ", b"a@b", b"x y", b"\xc3\xa9cole", b"\xf0\x9f\x98\x80", b"a.b_c-d", b"a" * 256, b"a" * 257,
                 b"\xe3\x80\x80zed\xe3\x80\x80", b"bob\t", b"@", b"UPPER", b"9"]
ACL_NIDS = ["alice@localhost", "bob@localhost", "carol@localhost", "dave@localhost", "localhost", "other.example.org",
            "eve@other.example.org", "alice@other.example.org", "bob", "x@", "@y", "bad nid", "a@b@c"]

MOD_CONFIGS = [None, None, None,
               {"ops": ["fwd-broadcast-payload", "fwd-event"], "proto": "TEST/1.0"},
               {"ops": ["fwd-event"], "proto": "P/2"},
               {"ops": ["fwd-broadcast-payload", "fwd-event", "send-private-payload", "recv-private-payload"], "proto": "TEST/1.0"},
               {"ops": ["send-private-payload"], "proto": "TEST/1.0"},
               {"ops": ["auth", "fwd-broadcast-payload", "fwd-event", "send-private-payload", "recv-private-payload"], "proto": "TEST/1.0"}]


def base_cfg(r, mod="rand"):
    cfg = {"domain": "localhost", "max_clients": r.choice([2, 3, 10]), "max_subs": r.choice([2, 3, 10]),
           "max_payload": r.choice([256, 1024]), "max_inflight": r.choice([1, 3, 10]), "max_message": 1024,
           "keepalive_ms": 3600000, "min_keepalive_ms": 1000, "max_conns": r.choice([4, 16, 16, 16]), "budget": 1 << 22, "max_channels": r.choice([1, 2, 100, 100]),
           "mod": r.choice(MOD_CONFIGS) if mod == "rand" else mod}
    return cfg


VIA_LINK = {"max_message": 4096, "max_payload": 1 << 16, "backoff_initial_ms": 1, "backoff_max_ms": 2, "client_timeout_ms": 40}


def to_via(case):
    """Re-route the history's modulator through the real S2M/M2S wire path (S2mClient, unix sockets, S2M and
    M2S dispatchers, M2sClient).  The modulator then declares payload forwarding and private-payload push (the
    C2S server hands every broadcast to S2mClient, which refuses undeclared operations locally); a failed call
    reaches the server only after the client's timeout, so each op gets a longer (virtual) settling time and
    keep-alive pings are pushed out of the history's time span."""
    import copy
    c = copy.deepcopy(case)
    m = c["cfg"].get("mod")
    if not m or c.get("nomodel"):
        return case
    for op in c["ops"]:
        if op["t"] not in ("open", "send", "hangup", "m2s_direct", "link_down"):  # (stall / read_some / timing ops: direct mode only)
            return case
        if any(isinstance(x, dict) and "park" in x for x in (op.get("script") or [])):
            return case
    for o in ("fwd-broadcast-payload", "recv-private-payload"):
        if o not in m["ops"]:
            m["ops"].append(o)
    order = ["auth", "fwd-broadcast-payload", "fwd-event", "send-private-payload", "recv-private-payload"]
    m["ops"] = [o for o in order if o in m["ops"]]
    m["via"] = "s2m"
    m["link"] = dict(VIA_LINK)
    # single-link mode or the pooled mode (deadpool; the shipped default is 16 idle connections)
    m["link"]["idle_conns"] = [1, 1, 16][sum(bytes.fromhex(op.get("bytes", "")[:64] or "00")[0] for op in c["ops"][:9]) % 3]
    c["cfg"]["min_keepalive_ms"] = 3600000
    c["cfg"]["keepalive_ms"] = 3600000
    c["cfg"]["settle_ms"] = 400
    return c


def enc_val(v):
    if isinstance(v, int):
        return str(v).encode()
    if isinstance(v, bool):
        return b"true" if v else b"false"
    if isinstance(v, str):
        v = v.encode()
    if v == b"":
        return b'\\"\\"'
    if any(c in v for c in b" \t\x0b\x0c\r"):
        for e in (b'"', b"'", b":", b"*"):
            if e not in v:
                return b"\\" + e + v + b"\\" + e
    return v


def frame(kind, params, payload=None):
    parts = [kind.encode()]
    for k, v in params:
        if v is None:
            continue
        if isinstance(v, list):
            if not v:
                continue
            parts.append(k.encode() + b":" + str(len(v)).encode() + b"=" + b" ".join(enc_val(x) for x in v))
        elif isinstance(v, bool):
            parts.append(k.encode() + b"=" + (b"true" if v else b"false"))
        else:
            parts.append(k.encode() + b"=" + enc_val(v))
    out = b" ".join(parts) + b"\n"
    if payload is not None:
        out += payload + b"\n"
    return out


def rand_outcome(r):
    k = r.random()
    if k < 0.45:
        return "ok"
    if k < 0.7:
        return "err"
    if k < 0.82:
        return "invalid"
    ln = r.choice([1, 5, 255, 256, 257, 1024, 1025])
    return {"altered": bytes(r.randrange(256) for _ in range(ln)).hex()}


def rand_script(r, cfg, first_call=False):
    """modulator outcomes for the calls of one op.  The disconnect clean-up visits channels in hash-set
    order, so everything after the op's own first (deterministic) call is uniform: all ok or all err."""
    if not cfg["mod"] or r.random() < 0.6:
        return []
    tail = [r.choice(["ok", "ok", "err"])] * 6
    if first_call:
        return [rand_outcome(r)] + tail
    return tail


def rand_payload(r, cfg):
    n = r.choice([1, 2, 5, 255, 256, 257, cfg["max_payload"] - 1, cfg["max_payload"]])
    k = r.random()
    if k < 0.4:
        return bytes(r.randrange(256) for _ in range(n))
    if k < 0.6:
        return (b"PING id=1\nJOIN id=2 channel=!c1@localhost\n" * (n // 10 + 1))[:n]
    return bytes(r.choice(b"ab\n \\\"=") for _ in range(n))


class Gen:
    """random mostly-valid histories; keeps a light shadow of who is connected to pick sensible arguments"""

    def __init__(self, r, cfg):
        self.r, self.cfg = r, cfg
        self.ops = []
        self.next_k = 1
        self.next_id = 1
        self.conns = {}      # k -> {"phase": 0/1/2, "user": str|None}
        self.joined = {}     # user -> set of channels (optimistic shadow)
        self.auth = bool(cfg["mod"]) and "auth" in cfg["mod"]["ops"]

    def rid(self):
        self.next_id += 1
        if not getattr(self, "used_max_id", False) and self.r.random() < 0.01:
            self.used_max_id = True      # ids are unique within a history
            return 4294967295
        return self.next_id

    def send(self, k, data, script=None):
        first = data.split(b" ")[0] in (b"BROADCAST", b"MOD_DIRECT", b"JOIN", b"LEAVE")
        self.ops.append({"t": "send", "k": k, "bytes": data.hex(),
                         "script": script if script is not None else rand_script(self.r, self.cfg, first)})

    def open_conn(self, identify=True):
        r = self.r
        k = self.next_k
        self.next_k += 1
        self.ops.append({"t": "open", "k": k})
        self.conns[k] = {"phase": 0, "user": None}
        if r.random() < 0.9:
            hb = r.choice([0, 0, 1, 999, 1000, 5000, 3600000, 3600001, 4294967295])
            ver = 1 if r.random() < 0.95 else r.choice([0, 2, 65535])
            self.send(k, frame("CONNECT", [("version", ver), ("heartbeat_interval", hb)]))
            if ver != 1:
                del self.conns[k]
                return k
            self.conns[k]["phase"] = 1
            if identify and r.random() < 0.92:
                self.identify(k)
        return k

    def identify(self, k):
        r = self.r
        used = {c["user"] for c in self.conns.values() if c["user"]}
        free = [u for u in USERS if u not in used]
        if r.random() < 0.08:
            name = r.choice(ODD_USERNAMES)
        elif free and r.random() < 0.85:
            name = r.choice(free).encode()
        else:
            name = r.choice(USERS).encode()
        if self.auth:
            tok = b"tok-" + name.replace(b" ", b"_")[:20] if name else b"tok-empty"
            o = r.random()
            if o < 0.75:
                script = [{"auth_success": name.hex()}]
            elif o < 0.85:
                script = [{"auth_continue": b"chal1".hex()}]
            elif o < 0.93:
                script = ["auth_fail"]
            else:
                script = ["err"]
            self.send(k, frame("AUTH", [("token", tok)]), script)
            if o < 0.75:
                self.conns[k].update({"phase": 2, "user": name.decode("utf-8", "replace").strip()})
        else:
            self.send(k, frame("IDENTIFY", [("username", name)]))
            nm = name.decode("utf-8", "replace").strip()
            if nm in USERS and nm not in used:
                self.conns[k].update({"phase": 2, "user": nm})
            elif nm not in USERS:
                self.conns[k].update({"phase": 2, "user": nm})   # may or may not have succeeded; fine

    def authed(self):
        return [k for k, c in self.conns.items() if c["phase"] == 2]

    def chan(self, k=None, member=False):
        r = self.r
        mine = sorted(self.joined.get(self.conns.get(k, {}).get("user"), set())) if k is not None else []
        if member and mine and r.random() < 0.85:
            return r.choice(mine)
        return r.choice(CHANNELS) if r.random() < 0.93 else r.choice(ODD_CHANNELS)

    def nid(self):
        r = self.r
        return r.choice(ACL_NIDS[:5]) if r.random() < 0.8 else r.choice(ACL_NIDS)

    def page_args(self):
        r = self.r
        if r.random() < 0.6:
            return None, None
        vals = [0, 1, 1, 2, 3, 50, 100, 101, 4294967295, 2147483648]
        return (r.choice(vals) if r.random() < 0.8 else None), (r.choice([0, 1, 1, 2, 20, 50, 51, 100, 4294967295]) if r.random() < 0.8 else None)

    def request(self):
        r = self.r
        ks = self.authed()
        if not ks or r.random() < 0.05:
            ks = list(self.conns) or [self.open_conn()]
        k = r.choice(ks)
        x = r.random()
        i = self.rid()
        if x < 0.22:
            ob = self.nid() if r.random() < 0.2 else None
            ch = self.chan()
            self.send(k, frame("JOIN", [("id", i), ("channel", ch), ("on_behalf", ob)]))
            who = (ob.split("@")[0] if ob else self.conns[k].get("user")) if k in self.conns else None
            if who and ch in CHANNELS:
                self.joined.setdefault(who, set()).add(ch)
        elif x < 0.34:
            ob = self.nid() if r.random() < 0.2 else None
            ch = self.chan(k, member=True)
            self.send(k, frame("LEAVE", [("id", i), ("channel", ch), ("on_behalf", ob)]))
            if not ob and k in self.conns:
                self.joined.get(self.conns[k].get("user"), set()).discard(ch)
        elif x < 0.52:
            pl = rand_payload(r, self.cfg)
            qos = r.choice([None, None, 0, 1])
            ln = len(pl)
            self.send(k, frame("BROADCAST", [("id", i), ("channel", self.chan(k, member=True)), ("length", ln), ("qos", qos)], pl))
        elif x < 0.60:
            p, s = self.page_args()
            self.send(k, frame("CHANNELS", [("id", i), ("page", p), ("page_size", s), ("owner", r.random() < 0.3)]))
        elif x < 0.68:
            p, s = self.page_args()
            self.send(k, frame("MEMBERS", [("id", i), ("channel", self.chan(k, member=True)), ("page", p), ("page_size", s)]))
        elif x < 0.76:
            nids = [self.nid() for _ in range(r.choice([0, 1, 1, 2, 3]))]
            self.send(k, frame("SET_CHAN_ACL", [("id", i), ("channel", self.chan(k, member=True)), ("type", r.choice(["join", "publish", "read"])),
                                                ("action", r.choice(["add", "add", "remove"])), ("nids", nids)]))
        elif x < 0.82:
            p, s = self.page_args()
            self.send(k, frame("GET_CHAN_ACL", [("id", i), ("channel", self.chan(k, member=True)), ("type", r.choice(["join", "publish", "read"])),
                                                ("page", p), ("page_size", s)]))
        elif x < 0.86:
            self.send(k, frame("GET_CHAN_CONFIG", [("id", i), ("channel", self.chan(k, member=True))]))
        elif x < 0.91:
            self.send(k, frame("SET_CHAN_CONFIG", [("id", i), ("channel", self.chan(k, member=True)), ("max_clients", r.choice([0, 1, 2, 3, 10, 11])),
                                                   ("max_payload_size", r.choice([0, 1, 16, 256, 1024, 1025]))]))
        elif x < 0.95:
            pl = rand_payload(r, self.cfg)
            self.send(k, frame("MOD_DIRECT", [("id", None if r.random() < 0.15 else i), ("from", r.choice(["spoof@localhost", "x"])),
                                              ("length", len(pl))], pl))
        else:
            odd = [frame("PING", [("id", i)]), frame("PONG", [("id", i)]), frame("CONNECT", [("version", 1), ("heartbeat_interval", 0)]),
                   frame("IDENTIFY", [("username", "mallory")]), frame("MESSAGE", [("from", "a@localhost"), ("channel", "!c1@localhost"), ("length", 1)], b"x"),
                   b"BOGUS id=1\n", b"JOIN id=0 channel=!c1@localhost\n", b"JOIN channel=!c1@localhost\n", frame("AUTH", [("token", "t")]),
                   frame("S2M_AUTH", [("id", i), ("token", "t")]), frame("M2S_MOD_DIRECT", [("id", i), ("targets", ["alice"]), ("length", 1)], b"x")]
            data = r.choice(odd)
            self.send(k, data)
            if not (data.startswith(b"PONG")):
                self.conns.pop(k, None)

    def hangup(self):
        if not self.conns:
            return
        k = self.r.choice(list(self.conns))
        self.ops.append({"t": "hangup", "k": k, "script": rand_script(self.r, self.cfg)})
        u = self.conns[k].get("user")
        del self.conns[k]
        if u and not any(c.get("user") == u for c in self.conns.values()):
            self.joined.pop(u, None)

    def direct(self):
        r = self.r
        ts = [r.choice(USERS + ["nobody", "alice@localhost"]) for _ in range(r.choice([1, 1, 2, 3, 4]))]
        pl = rand_payload(r, self.cfg)
        self.ops.append({"t": "m2s_direct", "targets": [t.encode().hex() for t in ts], "payload": pl.hex()})

    def build(self, n):
        r = self.r
        for _ in range(r.randint(2, 4)):
            self.open_conn()
        # warm-up: most identified users join a channel or two, so later requests have something to act on
        for k in list(self.authed()):
            for _ in range(r.choice([0, 1, 1, 2])):
                ch = r.choice(CHANNELS[:2])
                self.send(k, frame("JOIN", [("id", self.rid()), ("channel", ch)]))
                u = self.conns[k].get("user")
                if u:
                    self.joined.setdefault(u, set()).add(ch)
        n += len(self.ops)
        while len(self.ops) < n:
            x = r.random()
            if x < 0.10 and len(self.conns) < 6:
                self.open_conn()
            elif x < 0.17:
                self.hangup()
            elif x < 0.21:
                self.direct()
            else:
                self.request()
        return self.ops


# ---------------------------------------------------------------- Coq terms

def cfg_term(cfg):
    m = cfg["mod"]
    ops = m["ops"] if m else []
    b = lambda x: "true" if x else "false"
    return ("{| domain := bs \"%s\"; has_mod := %s; op_auth := %s; op_fbp := %s; op_fev := %s; op_spp := %s; proto := bs \"%s\"; "
            "max_clients := %d; max_subs := %d; max_payload_cfg := %d; max_inflight := %d; max_message := %d; keepalive := %d; "
            "min_keepalive := %d; max_conns := %d; pool_budget := %d; max_channels := %d |}") % (
        cfg["domain"], b(m), b("auth" in ops), b("fwd-broadcast-payload" in ops), b("fwd-event" in ops), b("send-private-payload" in ops),
        m["proto"] if m else "", cfg["max_clients"], cfg["max_subs"], cfg["max_payload"], cfg["max_inflight"], cfg["max_message"],
        cfg["keepalive_ms"], cfg["min_keepalive_ms"], cfg["max_conns"], cfg["budget"], cfg.get("max_channels", 100))


def script_term(sc):
    out = []
    for o in sc or []:
        if o == "ok":
            out.append("MOk")
        elif o == "err":
            out.append("MErr")
        elif o == "invalid":
            out.append("MInvalid")
        elif o == "auth_fail":
            out.append("MAuthFail")
        elif isinstance(o, dict) and "altered" in o:
            out.append("MAltered %s" % coq_bytes(bytes.fromhex(o["altered"])))
        elif isinstance(o, dict) and "auth_success" in o:
            out.append("MAuthSuccess %s" % coq_bytes(bytes.fromhex(o["auth_success"])))
        elif isinstance(o, dict) and "auth_continue" in o:
            out.append("MAuthContinue %s" % coq_bytes(bytes.fromhex(o["auth_continue"])))
        else:
            out.append("MOk")
    return "[" + ";".join(out) + "]"


def hx(h):
    return coq_bytes(bytes.fromhex(h))


def normalise_frame(f):
    """ERROR detail text and PING ids are not compared"""
    f = json.loads(json.dumps(f))
    names = [s[1] for s in cg.schema()]
    name = names[f["kind"]]
    fields = cg.schema()[f["kind"]][2]
    if name == "ERROR":
        for fd, v in zip(fields, f["fields"]):
            if fd["pname"] == "detail":
                v["os"] = None
    if name == "PING":
        f["fields"][0]["n"] = 0
    return f


def frame_name(f):
    return cg.schema()[f["kind"]][1]


def frame_get(f, pname):
    for fd, v in zip(cg.schema()[f["kind"]][2], f["fields"]):
        if fd["pname"] == pname:
            (k, x), = v.items()
            return x
    return None


def obs_term(op, o):
    """observation of one op -> (coq oobs term, hints term, ok flag)"""
    frs = []
    closed = []
    hints = []
    ok = True
    for k, v in sorted(o["conns"].items(), key=lambda kv: int(kv[0])):
        fl = []
        for f in v["frames"]:
            if "undecodable" in f:
                ok = False
                continue
            nf = normalise_frame(f)
            pl = "None" if f["payload"] is None else "(Some %s)" % hx(f["payload"])
            if f["payload"] is not None and not f.get("payload_nl", True):
                ok = False
            fl.append("(%s, %s)" % (cg.coq_msg(nf), pl))
            if frame_name(f) == "EVENT" and frame_get(f, "kind") == b"MEMBER_JOINED".hex() and frame_get(f, "owner") is True:
                hints.append((frame_get(f, "channel"), frame_get(f, "nid")))
        if v.get("leftover"):
            ok = False
        frs.append("(%s, [%s])" % (k, ";".join(fl)))
        if v["closed"]:
            closed.append(k)
    if op["t"] == "hangup":
        closed.append(str(op["k"]))
    mods = []
    for c in o["mod"]:
        if c["call"] == "auth":
            mods.append("McAuth %s" % hx(c["token"]))
        elif c["call"] == "fbp":
            mods.append("McFbp %s %s %s" % (hx(c["from"]), hx(c["channel"]), hx(c["payload"])))
        elif c["call"] == "event":
            mods.append("McEvent %s %s %s %s" % (hx(c["kind"]), hx(c["channel"] or ""), hx(c["nid"] or ""), "true" if c["owner"] else "false"))
            if c["kind"] == b"MEMBER_JOINED".hex() and c["owner"]:
                hints.append((c["channel"], c["nid"]))
        elif c["call"] == "spp":
            mods.append("McSpp %s %s" % (hx(c["from"]), hx(c["payload"])))
    for k, e in o.get("ended", {}).items():
        if e.get("panicked"):
            ok = False
    # hints: channel handler -> nid
    hterms = []
    seen = set()
    for ch, nidh in hints:
        if ch is None or nidh is None or (ch, nidh) in seen:
            continue
        seen.add((ch, nidh))
        chb = bytes.fromhex(ch)
        nb = bytes.fromhex(nidh)
        if not chb.startswith(b"!") or b"@" not in chb or b"@" not in nb:
            continue
        handler = chb[1:chb.index(b"@")]
        u, d = nb.split(b"@", 1)
        hterms.append("(%s, {| nu := %s; nd := %s |})" % (coq_bytes(handler), coq_bytes(u), coq_bytes(d)))
    obt = "ob [%s] [%s] [%s]" % (";".join(frs), ";".join(closed), ";".join(mods))
    return obt, "[" + ";".join(hterms) + "]", ok


def op_term(op, hints):
    t = op["t"]
    if t == "open":
        return "Open %d" % op["k"]
    if t == "send":
        data = op["bytes"]
        if op.get("split") == "head":
            data = ""                                   # an incomplete header line: nothing to dispatch yet
        elif op.get("split") == "tail":
            data = op["head"] + op["bytes"]
        return "Bytes %d %s %s %s" % (op["k"], hx(data), script_term(op.get("script")), hints)
    if t == "hangup":
        return "Hangup %d %s %s" % (op["k"], script_term(op.get("script")), hints)
    if t == "m2s_direct":
        return "Direct [%s] %s" % (";".join(hx(x) for x in op["targets"]), hx(op["payload"]))
    raise ValueError(t)


def conf_terms(cases, observations):
    """one Coq boolean per history"""
    terms = []
    flags = []
    for c, ob in zip(cases, observations):
        if "ops" not in ob:
            terms.append("false")
            flags.append(False)
            continue
        if c.get("nomodel"):
            # interleaved (parked-modulator) histories: outside the sequential model; monitors only
            terms.append("true")
            flags.append(True)
            continue
        ops_t, obs_t = [], []
        good = True
        for op, o in zip(c["ops"], ob["ops"]):
            sc = op.get("script") or []
            if len(set(json.dumps(x) for x in sc)) > 1 and (op["t"] == "hangup" or any(v["closed"] for v in o["conns"].values())):
                # the disconnect clean-up visits the user's channels in hash-set order; with a non-uniform script
                # of modulator outcomes the outcome each channel gets is not determined: stop comparing here
                break
            obt, hints, ok = obs_term(op, o)
            good = good and ok
            ops_t.append(op_term(op, hints))
            obs_t.append(obt)
        flags.append(good)
        terms.append("%s %s [%s] [%s]" % ("conf_case_x" if c.get("xsem") else "conf_case", cfg_term(c["cfg"]), ";".join(ops_t), ";".join(obs_t)) if good else "false")
    return terms, flags


def first_bad_terms(cases, observations):
    terms = []
    for c, ob in zip(cases, observations):
        ops_t, obs_t = [], []
        for op, o in zip(c["ops"], ob["ops"]):
            obt, hints, ok = obs_term(op, o)
            ops_t.append(op_term(op, hints))
            obs_t.append(obt)
        terms.append("conf_from 0 %s init [%s] [%s]" % (cfg_term(c["cfg"]), ";".join(ops_t), ";".join(obs_t)))
    return terms


def run_histories(cases, profile="debug", tag="srv", timeout=1200):
    return run_harness("server", cases, profile, tag=tag, timeout=timeout)


def conformance(cases, observations, tag):
    terms, flags = conf_terms(cases, observations)
    bad, out = coq_eval(PRELUDE, terms, kind="bool", tag=tag)
    return bad, out, flags


def acl_histories(r, thorough, types=("join", "publish", "read")):
    """directed: an owner edits one ACL type with random batches, reads it back, then every user probes it"""
    cases = []
    for _ in range(80 if thorough else 16):
        cfg = base_cfg(r, None)
        # the allow-list entry limit is the channel's max_clients: small values make batches overflow it (the refusal is
        # a POLICY_VIOLATION that also disconnects the owner; another member then inherits the channel and its lists)
        cfg.update({"max_clients": r.choice([10, 10, 3, 4]), "max_subs": 10, "max_conns": 16})
        g = Gen(r, cfg)
        ks = {}
        for u in USERS:
            k = g.next_k
            g.next_k += 1
            g.ops.append({"t": "open", "k": k})
            g.send(k, frame("CONNECT", [("version", 1), ("heartbeat_interval", 0)]))
            g.send(k, frame("IDENTIFY", [("username", u)]))
            g.conns[k] = {"phase": 2, "user": u}
            ks[u] = k
        ch = "!c1@localhost"
        owner = ks["alice"]
        g.send(owner, frame("JOIN", [("id", g.rid()), ("channel", ch)]))
        ty = r.choice(list(types))
        if ty != "join":
            for u in ("bob", "carol"):
                g.send(ks[u], frame("JOIN", [("id", g.rid()), ("channel", ch)]))
        for _ in range(r.randint(1, 5)):
            nids = [r.choice(ACL_NIDS[:8] if r.random() < 0.7 else ["bob@localhost", "eve@other.example.org", "carol@localhost"]) for _ in range(r.choice([1, 1, 2, 3]))]
            g.send(owner, frame("SET_CHAN_ACL", [("id", g.rid()), ("channel", ch), ("type", ty),
                                                    ("action", r.choice(["add", "add", "remove", "remove"])), ("nids", nids)]))
            g.send(owner, frame("GET_CHAN_ACL", [("id", g.rid()), ("channel", ch), ("type", ty)]))
        ending = r.random()
        if ending < 0.25:
            # two domains listed, then the last user entry of the local domain is removed: the local domain must be gone
            # from the list (an empty user set would mean "the whole domain")
            u = r.choice(USERS)
            g.send(owner, frame("SET_CHAN_ACL", [("id", g.rid()), ("channel", ch), ("type", ty), ("action", "remove"),
                                                    ("nids", [x + "@localhost" for x in USERS] + ["localhost"])]))
            g.send(owner, frame("SET_CHAN_ACL", [("id", g.rid()), ("channel", ch), ("type", ty), ("action", "add"),
                                                    ("nids", [u + "@localhost", "eve@other.example.org"])]))
            g.send(owner, frame("SET_CHAN_ACL", [("id", g.rid()), ("channel", ch), ("type", ty), ("action", "remove"), ("nids", [u + "@localhost"])]))
            g.send(owner, frame("GET_CHAN_ACL", [("id", g.rid()), ("channel", ch), ("type", ty)]))
        elif ending < 0.6:
            # end on a bare-domain entry: whatever user entries of the local domain were listed are removed, then the
            # domain itself is added (its users are then admitted only through the bare entry)
            g.send(owner, frame("SET_CHAN_ACL", [("id", g.rid()), ("channel", ch), ("type", ty), ("action", "remove"),
                                                    ("nids", [u + "@localhost" for u in USERS])]))
            g.send(owner, frame("SET_CHAN_ACL", [("id", g.rid()), ("channel", ch), ("type", ty), ("action", "add"),
                                                    ("nids", r.choice([["localhost"], ["localhost", "other.example.org"], ["eve@other.example.org", "localhost"]]))]))
            g.send(owner, frame("GET_CHAN_ACL", [("id", g.rid()), ("channel", ch), ("type", ty)]))
        behalf_first = ty == "join" and r.random() < 0.5
        if behalf_first:
            # the owner's own listing is made to differ from (some of) the users she then joins on their behalf, who are
            # not members yet: the decision must follow the list for the user being joined, whoever asks
            g.send(owner, frame("SET_CHAN_ACL", [("id", g.rid()), ("channel", ch), ("type", "join"),
                                                    ("action", r.choice(["add", "remove"])), ("nids", ["alice@localhost"])]))
            g.send(owner, frame("GET_CHAN_ACL", [("id", g.rid()), ("channel", ch), ("type", "join")]))
            for u in r.sample(["bob", "carol", "dave"], 3):
                g.send(owner, frame("JOIN", [("id", g.rid()), ("channel", ch), ("on_behalf", u + "@localhost")]))
        for u in USERS[1:]:
            if ty == "join":
                g.send(ks[u], frame("JOIN", [("id", g.rid()), ("channel", ch)]))
            elif ty == "publish":
                g.send(ks[u], frame("BROADCAST", [("id", g.rid()), ("channel", ch), ("length", 3)], b"abc"))
        if ty == "read":
            g.send(owner, frame("BROADCAST", [("id", g.rid()), ("channel", ch), ("length", 3)], b"xyz"))
        if ty == "join":
            # the owner joins others on their behalf: the decision is about the user being joined, not about the owner
            for u in r.sample(["bob", "carol", "dave"], 3):
                g.send(owner, frame("JOIN", [("id", g.rid()), ("channel", ch), ("on_behalf", u + "@localhost")]))
        # whoever owns the channel now reads the list back (the others are refused)
        for u in USERS:
            g.send(ks[u], frame("GET_CHAN_ACL", [("id", g.rid()), ("channel", ch), ("type", ty)]))
        cases.append({"cfg": cfg, "ops": g.ops})
    return cases




def two_list_histories(r, thorough):
    """directed: the owner edits TWO of a channel's allow-lists in turn (the lists are independent: an update of one must
    neither read nor write another), reads both back, then members publish: every member the read list — as the
    acknowledged updates build it — permits receives each acknowledged broadcast, the others none."""
    cases = []
    for _ in range(60 if thorough else 12):
        cfg = base_cfg(r, None)
        cfg.update({"max_clients": 10, "max_subs": 10, "max_conns": 16, "max_channels": 100, "max_inflight": 10})
        g = Gen(r, cfg)
        ks = _login(g, USERS)
        ch = "!c1@localhost"
        owner = ks["alice"]
        for u in USERS:
            g.send(ks[u], frame("JOIN", [("id", g.rid()), ("channel", ch)]))
        t1, t2 = r.choice([("read", "publish"), ("publish", "read"), ("read", "join"), ("join", "read")])
        names = [u + "@localhost" for u in USERS]
        steps = [(t1, "add", r.sample(names, 1)), (t2, "add", ["alice@localhost"] + r.sample(names[1:], 1)), (t1, "add", r.sample(names, 1)),
                 (t2, r.choice(["add", "remove"]), r.sample(names[1:], 1)), (t1, r.choice(["add", "remove"]), r.sample(names, r.choice([1, 2])))]
        for (ty, act, nids) in steps[:r.randint(3, 5)]:
            g.send(owner, frame("SET_CHAN_ACL", [("id", g.rid()), ("channel", ch), ("type", ty), ("action", act), ("nids", nids)]))
        for ty in (t1, t2):
            g.send(owner, frame("GET_CHAN_ACL", [("id", g.rid()), ("channel", ch), ("type", ty)]))
        for u in ("alice", "bob", "carol"):
            g.send(ks[u], frame("BROADCAST", [("id", g.rid()), ("channel", ch), ("length", 4), ("qos", 1)], b"data"))
        cases.append({"cfg": cfg, "ops": g.ops})
    return cases


def op_bytes(op):
    """the whole frames a send op completes (a split header counts in the op that carries its tail)"""
    if op.get("split") == "head":
        return b""
    if op.get("split") == "tail":
        return bytes.fromhex(op["head"] + op["bytes"])
    return bytes.fromhex(op["bytes"])


def _login(g, users):
    ks = {}
    for u in users:
        k = g.next_k
        g.next_k += 1
        g.ops.append({"t": "open", "k": k})
        g.send(k, frame("CONNECT", [("version", 1), ("heartbeat_interval", 0)]), [])
        g.send(k, frame("IDENTIFY", [("username", u)]), [])
        g.conns[k] = {"phase": 2, "user": u}
        ks[u] = k
    return ks


def kick_histories(r, thorough):
    """directed: an owner removes a member with LEAVE on_behalf, then the history returns to a boundary that depends on
    the per-user channel index: the owner disconnects (hand-over, clean-up), the removed member re-joins up to its
    subscription limit, the owner fills its own limit, a reconnecting namesake probes ownership; ends with the audit."""
    import srvmon
    cases = []
    for _ in range(160 if thorough else 30):
        mod = r.choice([None, None, MOD_CONFIGS[3], MOD_CONFIGS[4]])
        cfg = base_cfg(r, mod)
        cfg.update({"max_clients": 10, "max_subs": r.choice([1, 2, 2, 3, 3, 10]), "max_conns": 16, "max_channels": r.choice([1, 2, 3, 3, 100])})
        g = Gen(r, cfg)
        ks = _login(g, USERS)
        chans = CHANNELS[:r.choice([1, 2, 3])]
        owner = r.choice(USERS[:2])
        others = [u for u in USERS if u != owner]
        for ch in chans:
            g.send(ks[owner], frame("JOIN", [("id", g.rid()), ("channel", ch)]), [])
            for u in others[:r.choice([1, 2, 3])]:
                g.send(ks[u], frame("JOIN", [("id", g.rid()), ("channel", ch)]), [])
        victim = others[0]
        ch = chans[0]
        g.send(ks[owner], frame("LEAVE", [("id", g.rid()), ("channel", ch), ("on_behalf", victim + "@localhost")]), [])
        tail = r.choice(["owner_drops", "owner_drops", "victim_refills", "owner_fills", "owner_leaves"])
        if tail == "owner_drops":
            if r.random() < 0.5:
                g.ops.append({"t": "hangup", "k": ks[owner], "script": []})
            else:
                g.send(ks[owner], b"BOGUS\n", [])          # closed by the server
            del g.conns[ks[owner]]
            k = g.next_k
            g.next_k += 1
            g.ops.append({"t": "open", "k": k})
            g.send(k, frame("CONNECT", [("version", 1), ("heartbeat_interval", 0)]), [])
            g.send(k, frame("IDENTIFY", [("username", owner)]), [])
            g.conns[k] = {"phase": 2, "user": owner}
            g.send(k, frame("SET_CHAN_ACL", [("id", g.rid()), ("channel", ch), ("type", "join"), ("action", "add"), ("nids", ["dave@localhost"])]), [])
            g.send(ks[others[1]], frame("MEMBERS", [("id", g.rid()), ("channel", ch)]), [])
            # somebody still in the channel publishes: the reconnected namesake, who joined nothing, must not receive it
            g.send(ks[others[1]], frame("BROADCAST", [("id", g.rid()), ("channel", ch), ("length", 4), ("qos", 1)], b"late"), [])
        elif tail == "victim_refills":
            for c2 in CHANNELS + ["!c4@localhost", "!c5@localhost"]:
                g.send(ks[victim], frame("JOIN", [("id", g.rid()), ("channel", c2)]), [])
        elif tail == "owner_fills":
            for c2 in CHANNELS + ["!c4@localhost", "!c5@localhost"]:
                g.send(ks[owner], frame("JOIN", [("id", g.rid()), ("channel", c2)]), [])
            g.ops.append({"t": "hangup", "k": ks[owner], "script": []})
            del g.conns[ks[owner]]
        else:
            g.send(ks[owner], frame("LEAVE", [("id", g.rid()), ("channel", ch)]), [])
        cases.append({"cfg": cfg, "ops": g.ops + srvmon.audit_ops(g)})
    return cases


def failed_event_histories(r, thorough):
    """directed: the modulator's event forwarding FAILS exactly on a MEMBER_LEFT (a leave, an owner's removal of a member, a
    disconnect clean-up).  The departure must still be complete in both views (the requester gets an ERROR, K18a: no event
    reaches the members), an emptied channel must be gone — whoever joins next creates it afresh (default configuration and
    ACLs, ownership) — ends with the audit."""
    import srvmon
    cases = []
    variants = ["member_leaves", "owner_kicks", "last_leaves_rejoin", "second_connection_leaves", "hangup_member", "join_announcement_fails"]
    for i in range(120 if thorough else 24):
        v = variants[i % len(variants)]
        mod = r.choice([MOD_CONFIGS[3], MOD_CONFIGS[4], MOD_CONFIGS[5]])
        cfg = base_cfg(r, mod)
        cfg.update({"max_clients": 10, "max_subs": 10, "max_conns": 16, "max_channels": 100, "max_inflight": 10})
        g = Gen(r, cfg)
        ks = _login(g, ["alice", "bob", "carol"])
        ch = "!c1@localhost"
        fail = ["err"] * 7
        g.send(ks["alice"], frame("JOIN", [("id", g.rid()), ("channel", ch)]), [])
        if v == "last_leaves_rejoin":
            # the owner tightens the channel, then leaves it empty while the notification fails
            g.send(ks["alice"], frame("SET_CHAN_ACL", [("id", g.rid()), ("channel", ch), ("type", "join"), ("action", "add"), ("nids", ["alice@localhost"])]), [])
            g.send(ks["alice"], frame("SET_CHAN_CONFIG", [("id", g.rid()), ("channel", ch), ("max_clients", 1), ("max_payload_size", 16)]), [])
            g.send(ks["alice"], frame("LEAVE", [("id", g.rid()), ("channel", ch)]), fail)
            g.send(ks["bob"], frame("JOIN", [("id", g.rid()), ("channel", ch)]), [])
            g.ops[-1]["expect_created"] = ch       # nobody is a member any more: this JOIN creates the channel afresh
            g.send(ks["bob"], frame("GET_CHAN_CONFIG", [("id", g.rid()), ("channel", ch)]), [])
            g.send(ks["bob"], frame("GET_CHAN_ACL", [("id", g.rid()), ("channel", ch), ("type", "join")]), [])
            g.send(ks["carol"], frame("JOIN", [("id", g.rid()), ("channel", ch)]), [])
        elif v == "join_announcement_fails":
            # the announcement of a JOIN to an existing channel fails: the joiner is refused (and its connection closed);
            # it comes back under the same name — it is a member of nothing, whatever the members publish
            g.send(ks["bob"], frame("JOIN", [("id", g.rid()), ("channel", ch)]), [])
            g.send(ks["carol"], frame("JOIN", [("id", g.rid()), ("channel", ch)]), fail)
            del g.conns[ks["carol"]]
            k2 = g.next_k
            g.next_k += 1
            g.ops.append({"t": "open", "k": k2})
            g.send(k2, frame("CONNECT", [("version", 1), ("heartbeat_interval", 0)]), [])
            g.send(k2, frame("IDENTIFY", [("username", "carol")]), [])
            g.conns[k2] = {"phase": 2, "user": "carol"}
            for pub in ("alice", "bob"):
                g.send(ks[pub], frame("BROADCAST", [("id", g.rid()), ("channel", ch), ("length", 6), ("qos", r.choice([0, 1]))], b"secret"), [])
            g.send(k2, frame("CHANNELS", [("id", g.rid()), ("page_size", 50)]), [])
            g.ops[-1]["audit"] = "channels"
            g.send(k2, frame("MEMBERS", [("id", g.rid()), ("channel", ch), ("page_size", 100)]), [])
            g.ops[-1].update({"audit": "members", "channel": ch})
        else:
            g.send(ks["bob"], frame("JOIN", [("id", g.rid()), ("channel", ch)]), [])
            if r.random() < 0.5:
                g.send(ks["carol"], frame("JOIN", [("id", g.rid()), ("channel", ch)]), [])
            if v == "member_leaves":
                g.send(ks["bob"], frame("LEAVE", [("id", g.rid()), ("channel", ch)]), fail)
            elif v == "owner_kicks":
                g.send(ks["alice"], frame("LEAVE", [("id", g.rid()), ("channel", ch), ("on_behalf", "bob@localhost")]), fail)
            elif v == "second_connection_leaves":
                k2 = g.next_k
                g.next_k += 1
                g.ops.append({"t": "open", "k": k2})
                g.send(k2, frame("CONNECT", [("version", 1), ("heartbeat_interval", 0)]), [])
                g.send(k2, frame("IDENTIFY", [("username", "bob")]), [])     # refused: the name is in use (no modulator auth here)
                g.send(ks["bob"], frame("LEAVE", [("id", g.rid()), ("channel", ch)]), fail)
            else:
                g.ops.append({"t": "hangup", "k": ks["bob"], "script": fail})
                del g.conns[ks["bob"]]
            # afterwards: the departed user is outside (a broadcast by a member must not reach it), it may join again
            g.send(ks["alice"], frame("BROADCAST", [("id", g.rid()), ("channel", ch), ("length", 5), ("qos", 0)], b"after"), [])
            if v != "hangup_member":
                # both views of the departed user, right now (before anything repairs them)
                g.send(ks["bob"], frame("CHANNELS", [("id", g.rid()), ("page_size", 50)]), [])
                g.ops[-1]["audit"] = "channels"
                g.send(ks["bob"], frame("MEMBERS", [("id", g.rid()), ("channel", ch), ("page_size", 100)]), [])
                g.ops[-1].update({"audit": "members", "channel": ch})
                g.send(ks["bob"], frame("JOIN", [("id", g.rid()), ("channel", ch)]), [])
        cases.append({"cfg": cfg, "ops": g.ops + srvmon.audit_ops(g)})
    return cases


def retry_identify_histories(r, thorough):
    """directed: a connection whose IDENTIFY is REFUSED (the name is in use; a malformed name) stays connected and tries
    again under another name.  Nothing of the refused attempt may stick: the acknowledged identity is the new name, and
    every later request is judged for that identity — an outsider stays an outsider to the channel of the user whose
    name it asked for first.  Ends with the audit."""
    import srvmon
    cases = []
    for i in range(60 if thorough else 12):
        cfg = base_cfg(r, None)
        cfg.update({"max_clients": 10, "max_subs": 10, "max_conns": 16, "max_channels": 100, "max_inflight": 10})
        g = Gen(r, cfg)
        ks = _login(g, ["alice", "bob"])
        ch = "!c1@localhost"
        g.send(ks["alice"], frame("JOIN", [("id", g.rid()), ("channel", ch)]), [])
        g.send(ks["bob"], frame("JOIN", [("id", g.rid()), ("channel", ch)]), [])
        k = g.next_k
        g.next_k += 1
        g.ops.append({"t": "open", "k": k})
        g.send(k, frame("CONNECT", [("version", 1), ("heartbeat_interval", 0)]), [])
        victim = r.choice(["alice", "alice", "bob"])
        for _ in range(r.choice([1, 1, 2])):
            g.send(k, frame("IDENTIFY", [("username", r.choice([victim, victim, " " + victim, "a@b", ""]))]), [])     # refused
        g.send(k, frame("IDENTIFY", [("username", "mallory")]), [])
        g.conns[k] = {"phase": 2, "user": "mallory"}
        reqs = [frame("SET_CHAN_CONFIG", [("id", g.rid()), ("channel", ch), ("max_clients", 2)]),
                frame("SET_CHAN_ACL", [("id", g.rid()), ("channel", ch), ("type", "publish"), ("action", "add"), ("nids", ["mallory@localhost"])]),
                frame("GET_CHAN_ACL", [("id", g.rid()), ("channel", ch), ("type", "read")]),
                frame("GET_CHAN_CONFIG", [("id", g.rid()), ("channel", ch)]),
                frame("MEMBERS", [("id", g.rid()), ("channel", ch)]),
                frame("LEAVE", [("id", g.rid()), ("channel", ch), ("on_behalf", "bob@localhost")]),
                frame("BROADCAST", [("id", g.rid()), ("channel", ch), ("length", 4), ("qos", 0)], b"evil"),
                frame("CHANNELS", [("id", g.rid()), ("owner", True)]),
                frame("LEAVE", [("id", g.rid()), ("channel", ch)])]
        for q in r.sample(reqs, r.randint(3, len(reqs))):
            g.send(k, q, [])
        g.send(ks["alice"], frame("GET_CHAN_CONFIG", [("id", g.rid()), ("channel", ch)]), [])
        cases.append({"cfg": cfg, "ops": g.ops + srvmon.audit_ops(g)})
    return cases


def onbehalf_drop_histories(r, thorough):
    """directed: a user whose memberships all came from an owner's on-behalf JOIN drops its connection without a LEAVE.
    The memberships belong to the user, not to the connection that sent the JOIN: the user is gone from the channel
    (MEMBER_LEFT to the others), ownership is only ever handed to a live member, an emptied channel is gone, and a later
    session under the same name starts with nothing.  Ends with the audit."""
    import srvmon
    cases = []
    for i in range(40 if thorough else 10):
        mod = r.choice([None, None, MOD_CONFIGS[3]])
        cfg = base_cfg(r, mod)
        cfg.update({"max_clients": 10, "max_subs": 10, "max_conns": 16, "max_channels": 100, "max_inflight": 10})
        g = Gen(r, cfg)
        ks = _login(g, ["alice", "bob", "carol"])
        ch = "!c1@localhost"
        g.send(ks["alice"], frame("JOIN", [("id", g.rid()), ("channel", ch)]), [])
        g.send(ks["alice"], frame("JOIN", [("id", g.rid()), ("channel", ch), ("on_behalf", "bob@localhost")]), [])
        if i % 2:
            g.send(ks["alice"], frame("JOIN", [("id", g.rid()), ("channel", ch), ("on_behalf", "carol@localhost")]), [])
        g.ops.append({"t": "hangup", "k": ks["bob"], "script": []})
        del g.conns[ks["bob"]]
        g.send(ks["alice"], frame("MEMBERS", [("id", g.rid()), ("channel", ch)]), [])
        tail = ["owner_leaves", "owner_drops", "owner_stays"][i % 3]
        if tail == "owner_leaves":
            g.send(ks["alice"], frame("LEAVE", [("id", g.rid()), ("channel", ch)]), [])
        elif tail == "owner_drops":
            g.ops.append({"t": "hangup", "k": ks["alice"], "script": []})
            del g.conns[ks["alice"]]
        k = g.next_k
        g.next_k += 1
        g.ops.append({"t": "open", "k": k})
        g.send(k, frame("CONNECT", [("version", 1), ("heartbeat_interval", 0)]), [])
        g.send(k, frame("IDENTIFY", [("username", "bob")]), [])
        g.conns[k] = {"phase": 2, "user": "bob"}
        g.send(k, frame("CHANNELS", [("id", g.rid()), ("page_size", 50)]), [])
        g.ops[-1]["audit"] = "channels"
        g.send(k, frame("MEMBERS", [("id", g.rid()), ("channel", ch), ("page_size", 100)]), [])
        g.ops[-1].update({"audit": "members", "channel": ch})
        g.send(k, frame("SET_CHAN_CONFIG", [("id", g.rid()), ("channel", ch), ("max_clients", 5)]), [])      # an outsider (or, in an emptied channel's name, nobody)
        g.send(k, frame("JOIN", [("id", g.rid()), ("channel", ch)]), [])
        cases.append({"cfg": cfg, "ops": g.ops + srvmon.audit_ops(g), "also": ["C05"]})
    return cases


def split_histories(r, thorough):
    """directed (C10 at the connection loop): a request header arrives in two writes and, in between, the server
    writes something to that same connection (a MESSAGE / EVENT caused by another client, or a reply to an earlier
    pipelined request).  The model sees the bytes of both pieces in the op that completes the frame (split-independence
    is Proofs/FramingSeg.v); the op that carries only the head is a no-op for the model."""
    cases = []
    for _ in range(120 if thorough else 20):
        cfg = base_cfg(r, None)
        cfg.update({"max_clients": 10, "max_subs": 10, "max_conns": 16, "max_channels": 100, "max_inflight": 10})
        g = Gen(r, cfg)
        ks = _login(g, ["alice", "bob", "carol"])
        ch = "!c1@localhost"
        for u in ("alice", "bob"):
            g.send(ks[u], frame("JOIN", [("id", g.rid()), ("channel", ch)]), [])
        for _ in range(r.randint(1, 4)):
            req = r.choice([frame("CHANNELS", [("id", g.rid()), ("owner", False)]),
                            frame("MEMBERS", [("id", g.rid()), ("channel", ch)]),
                            frame("GET_CHAN_CONFIG", [("id", g.rid()), ("channel", ch)]),
                            frame("BROADCAST", [("id", g.rid()), ("channel", ch), ("length", 3), ("qos", 1)], b"xyz")])
            line_end = req.index(b"\n")
            cut = r.randint(1, line_end)          # inside the header line (possibly right before the newline)
            head, tail = req[:cut], req[cut:]
            g.ops.append({"t": "send", "k": ks["alice"], "bytes": head.hex(), "script": [], "split": "head"})
            kind = r.choice(["message", "event", "nothing", "message"])
            if kind == "message":
                g.send(ks["bob"], frame("BROADCAST", [("id", g.rid()), ("channel", ch), ("length", 5)], b"hello"), [])
            elif kind == "event":
                g.send(ks["carol"], frame("JOIN", [("id", g.rid()), ("channel", ch)]), [])
                g.send(ks["carol"], frame("LEAVE", [("id", g.rid()), ("channel", ch)]), [])
            g.ops.append({"t": "send", "k": ks["alice"], "bytes": tail.hex(), "script": [], "split": "tail", "head": head.hex()})
        cases.append({"cfg": cfg, "ops": g.ops})
    return cases


def stalled_drop_histories(r, thorough):
    """directed, monitors only (a stalled peer's frames are not observed, so the sequential model is not compared):
    a member stops reading on a tiny socket buffer, the others keep the channel busy until the server is blocked writing
    to it, then the stalled peer vanishes: its connection ends through the WRITE error path.  Afterwards the audit must
    find it gone from MEMBERS, the others must have been told (MEMBER_LEFT), and its name must be free again."""
    import srvmon
    cases = []
    for _ in range(40 if thorough else 8):
        cfg = base_cfg(r, None)
        cfg.update({"max_clients": 10, "max_subs": 10, "max_conns": 16, "max_channels": 100, "max_inflight": 10, "queue": r.choice([4, 256])})
        g = Gen(r, cfg)
        ks = {}
        for u in ("alice", "bob", "carol"):
            k = g.next_k
            g.next_k += 1
            op = {"t": "open", "k": k}
            if u == "alice":
                op["duplex"] = r.choice([64, 256])
            g.ops.append(op)
            g.send(k, frame("CONNECT", [("version", 1), ("heartbeat_interval", 0)]), [])
            g.send(k, frame("IDENTIFY", [("username", u)]), [])
            g.conns[k] = {"phase": 2, "user": u}
            ks[u] = k
        ch = "!c1@localhost"
        for u in r.sample(["alice", "bob", "carol"], 3):
            g.send(ks[u], frame("JOIN", [("id", g.rid()), ("channel", ch)]), [])
        g.ops.append({"t": "stall", "k": ks["alice"], "on": True})
        for _ in range(r.randint(3, 8)):
            pl = bytes(r.randrange(256) for _ in range(r.choice([100, 300])))
            g.send(ks[r.choice(["bob", "carol"])], frame("BROADCAST", [("id", g.rid()), ("channel", ch), ("length", len(pl))], pl), [])
        g.ops.append({"t": "hangup", "k": ks["alice"], "script": []})
        del g.conns[ks["alice"]]
        k = g.next_k
        g.next_k += 1
        g.ops.append({"t": "open", "k": k})
        g.send(k, frame("CONNECT", [("version", 1), ("heartbeat_interval", 0)]), [])
        g.send(k, frame("IDENTIFY", [("username", "alice")]), [])
        g.conns[k] = {"phase": 2, "user": "alice"}
        cases.append({"cfg": cfg, "ops": g.ops + srvmon.audit_ops(g), "nomodel": True})
    return cases


def slot_histories(r, thorough):
    """directed, monitors only: connections that end through an error path (a stalled peer vanishing while the server
    is blocked writing to it) as many times as max_connections allows, then new connections: they must be admitted."""
    cases = []
    for _ in range(24 if thorough else 5):
        cfg = base_cfg(r, None)
        mc = r.choice([3, 4])
        cfg.update({"max_clients": 10, "max_subs": 10, "max_conns": mc, "max_channels": 100, "max_inflight": 10, "queue": 256})
        g = Gen(r, cfg)
        ch = "!c1@localhost"
        k = g.next_k
        g.next_k += 1
        g.ops.append({"t": "open", "k": k})
        g.send(k, frame("CONNECT", [("version", 1), ("heartbeat_interval", 0)]), [])
        g.send(k, frame("IDENTIFY", [("username", "bob")]), [])
        g.send(k, frame("JOIN", [("id", g.rid()), ("channel", ch)]), [])
        bob = k
        for cyc in range(mc + 1):
            k = g.next_k
            g.next_k += 1
            g.ops.append({"t": "open", "k": k, "duplex": 64})
            g.send(k, frame("CONNECT", [("version", 1), ("heartbeat_interval", 0)]), [])
            g.send(k, frame("IDENTIFY", [("username", "u%d" % cyc)]), [])
            g.send(k, frame("JOIN", [("id", g.rid()), ("channel", ch)]), [])
            g.ops.append({"t": "stall", "k": k, "on": True})
            for _ in range(4):
                pl = bytes(r.randrange(256) for _ in range(300))
                g.send(bob, frame("BROADCAST", [("id", g.rid()), ("channel", ch), ("length", len(pl))], pl), [])
            g.ops.append({"t": "hangup", "k": k, "script": []})
        for j in range(mc - 1):
            k = g.next_k
            g.next_k += 1
            g.ops.append({"t": "open", "k": k})
            g.send(k, frame("CONNECT", [("version", 1), ("heartbeat_interval", 0)]), [])
            g.send(k, frame("IDENTIFY", [("username", "late%d" % j)]), [])
        cases.append({"cfg": cfg, "ops": g.ops, "nomodel": True})
    return cases


def inflight_histories(r, thorough):
    """directed, monitors only: requests suspended in a modulator call that never answers run into request_timeout, one
    after the other, max_inflight_requests times; afterwards a full window of pipelined requests must be served."""
    cases = []
    for _ in range(16 if thorough else 4):
        cfg = base_cfg(r, MOD_CONFIGS[3])
        k_inf = r.choice([2, 3])
        cfg.update({"max_clients": 10, "max_subs": 10, "max_conns": 16, "max_channels": 100, "max_inflight": k_inf, "request_timeout_ms": 500})
        g = Gen(r, cfg)
        ks = _login(g, ["alice", "bob"])
        ch = "!c1@localhost"
        for u in ("alice", "bob"):
            g.send(ks[u], frame("JOIN", [("id", g.rid()), ("channel", ch)]), ["ok", "ok"])
        for i in range(k_inf):
            g.send(ks["alice"], frame("BROADCAST", [("id", g.rid()), ("channel", ch), ("length", 4)], b"slow"), [{"park": i + 1}])
            g.ops.append({"t": "advance", "ms": 700})
        burst = b"".join(frame("CHANNELS", [("id", g.rid())]) for _ in range(k_inf))
        g.ops.append({"t": "send", "k": ks["alice"], "bytes": burst.hex(), "script": [], "window": k_inf})
        cases.append({"cfg": cfg, "ops": g.ops, "nomodel": True})
    return cases


def stalled_resume_histories(r, thorough):
    """directed, monitors only: a member stops reading on a tiny socket buffer while large broadcasts are queued to it,
    other clients cycle the shared message-buffer pool with small traffic, then the member reads on: every frame it
    finally receives must be intact (header and payload) and attributed correctly."""
    cases = []
    for _ in range(24 if thorough else 5):
        cfg = base_cfg(r, None)
        cfg.update({"max_clients": 10, "max_subs": 10, "max_conns": 16, "max_channels": 100, "max_inflight": 512, "queue": 1024, "max_payload": 1024})
        g = Gen(r, cfg)
        ks = {}
        for u in ("alice", "bob", "carol", "dave"):
            k = g.next_k
            g.next_k += 1
            op = {"t": "open", "k": k}
            if u == "alice":
                op["duplex"] = r.choice([256, 1024])
            g.ops.append(op)
            g.send(k, frame("CONNECT", [("version", 1), ("heartbeat_interval", 0)]), [])
            g.send(k, frame("IDENTIFY", [("username", u)]), [])
            g.conns[k] = {"phase": 2, "user": u}
            ks[u] = k
        for u, chn in (("alice", "!c1@localhost"), ("bob", "!c1@localhost"), ("carol", "!c2@localhost"), ("dave", "!c2@localhost")):
            g.send(ks[u], frame("JOIN", [("id", g.rid()), ("channel", chn)]), [])
        g.ops.append({"t": "stall", "k": ks["alice"], "on": True})
        for _ in range(r.randint(4, 8)):
            pl = bytes(r.randrange(256) for _ in range(r.choice([600, 1000])))
            g.send(ks["bob"], frame("BROADCAST", [("id", g.rid()), ("channel", "!c1@localhost"), ("length", len(pl)), ("qos", 1)], pl), [])
        # the stalled reader takes a little off its socket: the suspended write completes and the writer starts the next
        # batch (all the frames queued meanwhile), which is suspended again in its middle
        g.ops.append({"t": "read_some", "k": ks["alice"], "n": r.choice([700, 1500, 2500])})
        for _ in range(2):
            burst = b"".join(frame("BROADCAST", [("id", g.rid()), ("channel", "!c2@localhost"), ("length", 3)], b"abc") for _ in range(110))
            g.ops.append({"t": "send", "k": ks["carol"], "bytes": burst.hex(), "script": []})
        if r.random() < 0.5:
            g.ops.append({"t": "read_some", "k": ks["alice"], "n": r.choice([300, 900])})
            burst = b"".join(frame("BROADCAST", [("id", g.rid()), ("channel", "!c2@localhost"), ("length", 3)], b"abc") for _ in range(110))
            g.ops.append({"t": "send", "k": ks["dave"], "bytes": burst.hex(), "script": []})
        g.ops.append({"t": "stall", "k": ks["alice"], "on": False})
        g.ops.append({"t": "send", "k": ks["alice"], "bytes": frame("CHANNELS", [("id", g.rid())]).hex(), "script": [], "settle_ms": 200})
        cases.append({"cfg": cfg, "ops": g.ops, "nomodel": True, "stalled_resume": ks["alice"]})
    return cases


def outage_histories(r, thorough):
    """directed, monitors only: the real S2M wire path with the modulator process going away (listener gone, live links
    ended, re-dialling fails) — single-link and pooled client modes; afterwards every delegated decision must fail closed:
    no payload delivered, the publisher answered with an ERROR carrying its id, nobody authenticated."""
    cases = []
    for _ in range(20 if thorough else 5):
        auth = r.random() < 0.3
        mod = dict(MOD_CONFIGS[-1] if auth else MOD_CONFIGS[3])
        cfg = base_cfg(r, mod)
        cfg.update({"max_clients": 10, "max_subs": 10, "max_conns": 16, "max_channels": 100, "max_inflight": 10})
        g = Gen(r, cfg)
        ks = {}
        for u in ("alice", "bob"):
            k = g.next_k
            g.next_k += 1
            g.ops.append({"t": "open", "k": k})
            g.send(k, frame("CONNECT", [("version", 1), ("heartbeat_interval", 0)]), [])
            if auth:
                g.send(k, frame("AUTH", [("token", "tok-" + u)]), [{"auth_success": u.encode().hex()}])
            else:
                g.send(k, frame("IDENTIFY", [("username", u)]), [])
            g.conns[k] = {"phase": 2, "user": u}
            ks[u] = k
        ch = "!c1@localhost"
        for u in ("alice", "bob"):
            g.send(ks[u], frame("JOIN", [("id", g.rid()), ("channel", ch)]), ["ok", "ok"])
        g.send(ks["alice"], frame("BROADCAST", [("id", g.rid()), ("channel", ch), ("length", 5), ("qos", 1)], b"first"), ["ok"])
        g.ops.append({"t": "link_down"})
        for _ in range(r.randint(1, 3)):
            who = r.choice(["alice", "bob"])
            pl = r.choice([b"a secret thing", b"x", bytes(r.randrange(256) for _ in range(100))])
            g.send(ks[who], frame("BROADCAST", [("id", g.rid()), ("channel", ch), ("length", len(pl)), ("qos", r.choice([None, 0, 1]))], pl), ["err"] * 6)
        if auth:
            k = g.next_k
            g.next_k += 1
            g.ops.append({"t": "open", "k": k})
            g.send(k, frame("CONNECT", [("version", 1), ("heartbeat_interval", 0)]), [])
            g.send(k, frame("AUTH", [("token", "tok-carol")]), ["err"])
            g.send(k, frame("JOIN", [("id", g.rid()), ("channel", ch)]), ["err"] * 3)
        case = to_via({"cfg": cfg, "ops": g.ops})
        case["nomodel"] = True
        case["cfg"]["settle_ms"] = 600
        cases.append(case)
    return cases


def cut_histories(r, thorough):
    """directed (C05: a client connection dropped at every byte offset of its request stream): a member's request stream
    (JOIN / BROADCAST with payload / LEAVE / JOIN) is cut at an offset and the connection dropped; the complete frames
    before the cut take effect, the torn one does not (the model sees the whole frames only), the user is cleaned up and
    the others are told; ends with the audit.  quick: sampled offsets, thorough: every offset."""
    import srvmon
    cases = []
    mod = None
    stream = (frame("JOIN", [("id", 11), ("channel", "!c2@localhost")]) +
              frame("BROADCAST", [("id", 12), ("channel", "!c1@localhost"), ("length", 9), ("qos", 1)], b"pay\nload!") +
              frame("LEAVE", [("id", 13), ("channel", "!c1@localhost")]) +
              frame("JOIN", [("id", 14), ("channel", "!c3@localhost")]))
    offsets = list(range(0, len(stream) + 1)) if thorough else sorted(set(r.sample(range(0, len(stream) + 1), 14) + [0, len(stream)]))
    # byte offsets at which whole frames end
    ends = []
    pos = 0
    for part in (frame("JOIN", [("id", 11), ("channel", "!c2@localhost")]),
                 frame("BROADCAST", [("id", 12), ("channel", "!c1@localhost"), ("length", 9), ("qos", 1)], b"pay\nload!"),
                 frame("LEAVE", [("id", 13), ("channel", "!c1@localhost")]), frame("JOIN", [("id", 14), ("channel", "!c3@localhost")])):
        pos += len(part)
        ends.append(pos)
    for off in offsets:
        cfg = base_cfg(r, r.choice([None, None, MOD_CONFIGS[4]]))
        cfg.update({"max_clients": 10, "max_subs": 10, "max_conns": 16, "max_channels": 100, "max_inflight": 10})
        g = Gen(r, cfg)
        ks = _login(g, ["alice", "bob", "carol"])
        for u in ("alice", "bob"):
            g.send(ks[u], frame("JOIN", [("id", g.rid()), ("channel", "!c1@localhost")]), [])
        whole = max([e for e in ends if e <= off] + [0])
        if whole:
            g.send(ks["alice"], stream[:whole], ["ok"] * 6)
        if off > whole:
            g.ops.append({"t": "send", "k": ks["alice"], "bytes": stream[whole:off].hex(), "script": [], "split": "head"})
        g.ops.append({"t": "hangup", "k": ks["alice"], "script": ["ok"] * 6})
        del g.conns[ks["alice"]]
        cases.append({"cfg": cfg, "ops": g.ops + srvmon.audit_ops(g)})
    return cases


def oversize_histories(r, thorough):
    """directed: a small message buffer and long names, so that some unsolicited frames (EVENTs naming a long user in a
    long channel) do not fit: the receiving connection ends through the loop's error path (nothing of the batch is written,
    its user is cleaned up, which may cascade), replies that do not fit are replaced by RESPONSE_TOO_LARGE.  Compared with
    Model/ServerX.step_x; ends with the audit.  The long channel never has more than two members and the short one keeps
    its first owner, so that no hand-over pick (hash-set order, learnt from an EVENT that might itself be undeliverable)
    is ever needed."""
    import srvmon
    cases = []
    for _ in range(40 if thorough else 8):
        cfg = base_cfg(r, None)
        cfg.update({"max_clients": 10, "max_subs": 10, "max_conns": 16, "max_channels": 100, "max_inflight": 10,
                    "max_message": r.choice([200, 240, 280]), "max_payload": 256})
        g = Gen(r, cfg)
        long_user = "u" * r.choice([70, 90, 110])
        big = "!" + "c" * r.choice([70, 90, 110]) + "@localhost"
        ks = _login(g, ["bob", "alice", long_user, "dave"])
        g.send(ks["bob"], frame("JOIN", [("id", g.rid()), ("channel", "!c1@localhost")]), [])       # owner of the short channel, never leaves
        for u in r.sample(["alice", long_user, "dave"], 3):
            g.send(ks[u], frame("JOIN", [("id", g.rid()), ("channel", "!c1@localhost")]), [])
        pair = r.sample(["alice", long_user], 2)
        for u in pair:
            g.send(ks[u], frame("JOIN", [("id", g.rid()), ("channel", big)]), [])
            if r.random() < 0.5:
                g.send(ks[r.choice(pair)], frame("MEMBERS", [("id", g.rid()), ("channel", big)]), [])
        if r.random() < 0.5:
            # dave collects a few channels with long names: his CHANNELS listing no longer fits the buffer
            for j in range(r.choice([2, 3])):
                g.send(ks["dave"], frame("JOIN", [("id", g.rid()), ("channel", "!" + "d%d" % j * 40 + "@localhost")]), [])
            g.send(ks["dave"], frame("CHANNELS", [("id", g.rid()), ("page_size", 50)]), [])
        for _ in range(r.randint(3, 8)):
            u = r.choice(["alice", long_user, "dave"])
            x = r.random()
            if x < 0.25:
                g.send(ks[u], frame("LEAVE", [("id", g.rid()), ("channel", big if u != "dave" else "!c1@localhost")]), [])
            elif x < 0.4 and u != "dave":
                g.send(ks[u], frame("JOIN", [("id", g.rid()), ("channel", big)]), [])
            elif x < 0.6:
                g.send(ks[u], frame("MEMBERS", [("id", g.rid()), ("channel", r.choice([big, "!c1@localhost"]))]), [])
            elif x < 0.8:
                pl = b"x" * r.choice([1, 200])
                g.send(ks[u], frame("BROADCAST", [("id", g.rid()), ("channel", r.choice([big, "!c1@localhost"])), ("length", len(pl))], pl), [])
            else:
                g.send(ks[u], frame("CHANNELS", [("id", g.rid())]), [])
        cases.append({"cfg": cfg, "ops": g.ops + srvmon.audit_ops(g), "xsem": True})
    return cases
