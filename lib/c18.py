"""C18 — decided on the server model; see lib/srvprops.py and coq/Props/C18.v"""
import srvprops

PROP = "C18"
THEOREMS = ["C18_join_events_exact", "C18_join_refused_no_event", "C18_leave_events_exact", "C18_replay_join_step", "C18_replay_leave_step", "C18_failed_leave_notification"]


def run(tier, replay=None):
    return srvprops.run(PROP, THEOREMS, tier, replay)
