"""C18 — decided on the server model; see lib/srvprops.py and coq/Props/C18.v"""
import srvprops

PROP = "C18"
THEOREMS = ["C18_join_events_exact", "C18_join_refused_no_event", "C18_leave_events_exact", "C18_replay_join_step", "C18_replay_leave_step", "C18_failed_leave_notification", "C18_conc_event_confinement", "C18_source_segment_layout", "C18_conc_join_announced", "C18_conc_refused_join_is_silent", "C18_conc_leave_announced"]


import serverlib as sl


def classify(tag, what, case, ob, t):
    return "K18a" if what.startswith("K18a ") else None


def failing_notification_histories(r, thorough):
    """witness of K18a: the modulator's event forwarding fails during a LEAVE"""
    cases = []
    for _ in range(3):
        cfg = sl.base_cfg(r, {"ops": ["fwd-event"], "proto": "P/1"})
        cfg.update({"max_clients": 10, "max_subs": 10, "max_conns": 16})
        ops = []
        for k, u in ((1, "alice"), (2, "bob"), (3, "carol")):
            ops.append({"t": "open", "k": k})
            ops.append({"t": "send", "k": k, "bytes": sl.frame("CONNECT", [("version", 1), ("heartbeat_interval", 0)]).hex(), "script": []})
            ops.append({"t": "send", "k": k, "bytes": sl.frame("IDENTIFY", [("username", u)]).hex(), "script": []})
            ops.append({"t": "send", "k": k, "bytes": sl.frame("JOIN", [("id", 10 + k), ("channel", "!c1@localhost")]).hex(), "script": []})
        ops.append({"t": "send", "k": 2, "bytes": sl.frame("LEAVE", [("id", 20), ("channel", "!c1@localhost")]).hex(), "script": ["ok"]})
        ops.append({"t": "send", "k": 2, "bytes": sl.frame("JOIN", [("id", 21), ("channel", "!c1@localhost")]).hex(), "script": ["ok"]})
        ops.append({"t": "hangup", "k": 2, "script": ["err", "err", "err", "err"]})
        ops.append({"t": "send", "k": 1, "bytes": sl.frame("MEMBERS", [("id", 30), ("channel", "!c1@localhost")]).hex(), "script": []})
        cases.append({"cfg": cfg, "ops": ops})
    return cases


def with_races(r, thorough):
    """plus the interleaved histories of C05 (a LEAVE / clean-up suspended in its modulator notification while another
    connection joins): a JOIN that was acknowledged and announced must show in MEMBERS (the change log the members and the
    modulator were given has to replay to the member list), so the CHANNELS-vs-MEMBERS audit counts here as well"""
    import c05
    races = c05.interleaved_histories(r, thorough)
    for c in races:
        c["also"] = ["C05"]
    return failing_notification_histories(r, thorough) + races


def run(tier, replay=None):
    return srvprops.run(PROP, THEOREMS, tier, replay, extra_gen=with_races, known_classifier=classify)
