"""C18 — decided on the server model; see lib/srvprops.py and coq/Props/C18.v"""
import srvprops

PROP = "C18"
THEOREMS = ["C18_model_smoke"]


def run(tier, replay=None):
    return srvprops.run(PROP, THEOREMS, tier, replay)
