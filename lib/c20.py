"""C20 — deadlines, keep-alive and shutdown behave as negotiated."""
import json

import serverlib as sl
from common import (coqchk, Rng, assumptions, coq_eval, coq_make, harness_build, hygiene, load_known, log, regen, seed,
                    write_evidence, write_replay, TRUSTED_BASE)

PROP = "C20"
THEOREMS = ["C20_model_smoke", "C20_heartbeat_is_clamped", "C20_heartbeat_zero_is_max", "C20_heartbeat_in_range_kept", "C20_connect_deadline_exact",
            "C20_auth_deadline_exact", "C20_handshake_in_time_no_timeout", "C20_idle_is_pinged_within_two_intervals", "C20_ping_timeout_exact",
            "C20_ping_then_wait_three_intervals", "C20_active_is_never_pinged", "C20_stale_pong_gets_closed", "C20_closed_is_final",
            "C20_fuel_is_adequate", "C20_output_times_bounded", "C20_refused_attempt_keeps_auth_deadline", "C20_refused_attempt_example", "C20_link_negotiation_is_the_same_clamp"]
PRELUDE = "From NW Require Import Base.Bytes Model.Timers Conf.CodecConf Conf.TimerConf.\n"


def mk_cfg(r):
    return {"domain": "localhost", "mod": None, "max_conns": 8, "settle_ms": 2,
            "connect_timeout_ms": r.choice([1000, 3000]), "auth_timeout_ms": r.choice([1000, 2000, 3000]),
            "keepalive_ms": r.choice([2000, 4000]), "min_keepalive_ms": r.choice([1000, 2000]),
            "max_clients": 10, "max_subs": 10, "max_payload": 1024, "max_inflight": 10, "max_message": 1024, "budget": 1 << 22}


def act(ops, t, op, tin):
    ops.append({"t": "until", "ms": t, "tin": "IObserve"})
    op = dict(op)
    op["tin"] = tin
    ops.append(op)


def hb_of(cfg, req):
    mn, mx = cfg["min_keepalive_ms"], cfg["keepalive_ms"]
    if req == 0:
        return mx
    if req < mn:
        return mn
    if req > mx:
        return mx
    return req


def scenario(r, directed):
    cfg = mk_cfg(r)
    ops = []
    t = r.choice([0, 100, 250])
    if r.random() < 0.3:
        cfg["mod"] = dict(sl.MOD_CONFIGS[-1])      # modulator-delegated authentication
    else:
        # connection 2 takes the name "holder" first and keeps answering its pings out of the picture (long keep-alive)
        ops.append({"t": "open", "k": 2, "tin": "PRE"})
        ops.append({"t": "send", "k": 2, "bytes": sl.frame("CONNECT", [("version", 1), ("heartbeat_interval", 0)]).hex(), "tin": "PRE"})
        ops.append({"t": "send", "k": 2, "bytes": sl.frame("IDENTIFY", [("username", "holder")]).hex(), "tin": "PRE"})
    ops.append({"t": "until", "ms": t, "tin": "IObserve"})
    ops.append({"t": "open", "k": 1, "tin": "OPEN"})
    ct, at = cfg["connect_timeout_ms"], cfg["auth_timeout_ms"]
    probe = lambda d: [d - 7, d + 7] if directed else [d - 125, d + 125]
    x = r.random()
    req = r.choice([0, 1, 500, cfg["min_keepalive_ms"] - 1, cfg["min_keepalive_ms"], 1500, 2500, cfg["keepalive_ms"], cfg["keepalive_ms"] + 1, 4294967295])
    if x < 0.15:
        # never connects
        for p in probe(t + ct):
            ops.append({"t": "until", "ms": p, "tin": "IObserve"})
        return cfg, ops
    # CONNECT just before / after the deadline, or early
    tc = t + r.choice([50, 500, ct - 9, ct + 9] if directed else [50, 375, 625])
    act(ops, tc, {"t": "send", "k": 1, "bytes": sl.frame("CONNECT", [("version", 1), ("heartbeat_interval", req)]).hex(), "hb_req": req}, "IConnect %d" % req)
    if tc >= t + ct:
        ops.append({"t": "until", "ms": tc + 300, "tin": "IObserve"})
        return cfg, ops
    # the connect deadline must not fire any more
    ops.append({"t": "until", "ms": max(tc + 20, t + ct + 60), "tin": "IObserve"})
    tcur = max(tc + 20, t + ct + 60)
    if tcur >= tc + at - 15:
        ops.append({"t": "until", "ms": tc + at + 200, "tin": "IObserve"})
        return cfg, ops
    if x < 0.3:
        for p in probe(tc + at):
            if p > tcur + 5:
                ops.append({"t": "until", "ms": p, "tin": "IObserve"})
        return cfg, ops
    if x < 0.5:
        # attempts that are answered but do not authenticate (the name is held by connection 2; with modulator
        # authentication: a failure or a challenge), then silence: the authentication deadline still stands
        for _ in range(r.choice([1, 1, 2])):
            tcur += r.choice([10, 40, 120])
            if tcur >= tc + at - 15:
                break
            if cfg["mod"]:
                act(ops, tcur, {"t": "send", "k": 1, "bytes": sl.frame("AUTH", [("token", "tok")]).hex(),
                                "script": [r.choice(["auth_fail", {"auth_continue": b"nonce".hex()}])], "refusal": True}, "IRefused")
            else:
                act(ops, tcur, {"t": "send", "k": 1, "bytes": sl.frame("IDENTIFY", [("username", "holder")]).hex(), "refusal": True}, "IRefused")
        for p in probe(tc + at):
            if p > tcur + 5:
                ops.append({"t": "until", "ms": p, "tin": "IObserve"})
        return cfg, ops
    ti = r.choice([tcur + 10, tc + at - 9 if directed else tcur + 130])
    ti = max(ti, tcur + 10)
    if cfg["mod"]:
        act(ops, ti, {"t": "send", "k": 1, "bytes": sl.frame("AUTH", [("token", "tok")]).hex(), "script": [{"auth_success": b"alice".hex()}]}, "IIdentify")
    else:
        act(ops, ti, {"t": "send", "k": 1, "bytes": sl.frame("IDENTIFY", [("username", "alice")]).hex()}, "IIdentify")
    hb = hb_of(cfg, req)
    # authenticated life: a random walk of waits, requests and pongs
    tcur = ti + 20
    rid = 1
    for _ in range(r.randint(2, 9)):
        y = r.random()
        if y < 0.35:
            dt = r.choice([hb - 7, hb + 7, 2 * hb + 7, 3 * hb + 9]) if directed else r.choice([hb // 2 + 125, hb + 125, 2 * hb + 125, 4 * hb + 125])
            tcur += max(dt, 15)
            ops.append({"t": "until", "ms": tcur, "tin": "IObserve"})
        elif y < 0.65:
            tcur += r.choice([30, hb // 2, hb - 60])
            rid += 1
            act(ops, tcur, {"t": "send", "k": 1, "bytes": sl.frame("CHANNELS", [("id", rid)]).hex()}, "IRequest")
            tcur += 10
        elif y < 0.9:
            tcur += r.choice([20, 200, hb // 2])
            wrong = r.random() < 0.3
            act(ops, tcur, {"t": "pong", "k": 1, "wrong": wrong}, "PONG:" + ("bad" if wrong else "ok"))
            tcur += 10
        else:
            tcur += 40
            act(ops, tcur, {"t": "pong", "k": 1, "id": r.randint(1, 1000)}, "PONG:bad")
            tcur += 10
    tcur += 4 * hb + 300
    ops.append({"t": "until", "ms": tcur, "tin": "IObserve"})
    return cfg, ops


def to_term(cfg, ops, ob):
    """-> (coq term, hb monitor violations, usable)"""
    steps = []
    t_open = None
    mon = []
    had_ping = False
    t_ack = None          # when CONNECT was acknowledged
    authed = False
    t_closed = None
    hb_ann = None         # the heartbeat interval the server announced
    t_quiet = None        # since when the authenticated connection has neither sent anything nor been pinged
    awaiting_pong = False
    for op, o in zip(ops, ob["ops"]):
        fr = o["conns"].get("1", {"frames": [], "closed": False})
        if fr.get("closed") and t_closed is None:
            t_closed = o["t_end"]
        # keep-alive, judged on the implementation alone: an authenticated connection that has been silent for two
        # intervals (plus slack for the observation grid) has been pinged
        for f in fr["frames"]:
            if "undecodable" not in f and sl.frame_name(f) == "CONNECT_ACK":
                hb_ann = sl.frame_get(f, "heartbeat_interval")
            if "undecodable" not in f and sl.frame_name(f) == "PING":
                t_quiet = None
                awaiting_pong = True      # the keep-alive task now waits (3 intervals) for the PONG: no further PING is due
        if authed and t_closed is None and op["tin"] != "PRE":
            if op["t"] == "pong" and op.get("k") == 1 and o.get("note") is None:
                awaiting_pong = False
            if op["t"] in ("send", "pong") and op.get("k") == 1:
                t_quiet = o["t_end"]
            if awaiting_pong:
                t_quiet = None
            elif t_quiet is None and not any("undecodable" not in f and sl.frame_name(f) == "PING" for f in fr["frames"]):
                pass
            if t_quiet is not None and hb_ann and o["t_start"] > t_quiet + 2 * hb_ann + 20:
                mon.append(f"authenticated connection silent since {t_quiet} ms has not been pinged by {o['t_start']} ms (heartbeat {hb_ann} ms)")
                t_quiet = None
        for f in fr["frames"]:
            if "undecodable" in f:
                continue
            n0 = sl.frame_name(f)
            if n0 == "CONNECT_ACK" and t_ack is None:
                t_ack = o["t_start"]
            if n0 == "IDENTIFY_ACK" or (n0 == "AUTH_ACK" and sl.frame_get(f, "succeeded") is True):
                authed = True
                t_quiet = o["t_end"]
        # the phase deadlines, judged on the implementation alone: whoever has not authenticated authenticate_timeout after
        # its CONNECT was acknowledged must have been closed by then (5 ms of slack for the observation grid)
        if t_ack is not None and not authed and t_closed is None and o["t_start"] > t_ack + cfg["auth_timeout_ms"] + 5 and op["tin"] != "PRE":
            mon.append(f"connection acknowledged at {t_ack} ms never authenticated and is still open at {o['t_start']} ms (authenticate_timeout {cfg['auth_timeout_ms']} ms)")
            t_closed = -1     # report once
        kinds = []
        for f in fr["frames"]:
            if "undecodable" in f:
                continue
            n = sl.frame_name(f)
            if n == "PING":
                kinds.append("KPing")
                had_ping = True
            elif n == "ERROR":
                reason = bytes.fromhex(sl.frame_get(f, "reason"))
                if reason == b"TIMEOUT":
                    kinds.append("KTimeout")
                elif reason == b"BAD_REQUEST":
                    kinds.append("KBadPong")
                elif reason == b"USERNAME_IN_USE" and op.get("refusal"):
                    pass
                else:
                    mon.append(f"unexpected ERROR {reason}")
            elif n == "CONNECT_ACK":
                got = sl.frame_get(f, "heartbeat_interval")
                want = hb_of(cfg, op.get("hb_req", 0))
                if got != want:
                    mon.append(f"CONNECT_ACK announces heartbeat {got}, requested {op.get('hb_req')} clamped to [{cfg['min_keepalive_ms']},{cfg['keepalive_ms']}] is {want}")
        tin = op["tin"]
        if tin == "OPEN":
            t_open = o["t_start"]
            tin = "IObserve"
        if tin.startswith("PONG:"):
            if o.get("note") == "no ping seen / closed":
                tin = "IObserve"
            else:
                tin = "IPongOk" if tin.endswith("ok") else "IPongBad"
                # a PONG with the last PING's id after that PING was already answered is a wrong id
        steps.append("(%d, %s, %d, [%s])" % (o["t_start"], tin, o["t_end"], ";".join(kinds)))
    c = "{| connect_to := %d; auth_to := %d; hb_min := %d; hb_max := %d |}" % (cfg["connect_timeout_ms"], cfg["auth_timeout_ms"], cfg["min_keepalive_ms"], cfg["keepalive_ms"])
    # steps before the open are plain observations of nothing
    pre = [s for s, op in zip(steps, ops)][:0]
    idx = next(i for i, op in enumerate(ops) if op["tin"] == "OPEN")
    term = "timer_conf %s %d (topen %s %d) [] [%s]" % (c, t_open, c, t_open, ";".join(steps[idx:]))
    return term, mon


def fix_pong_semantics(ops, ob):
    """the driver answers with the id of the LAST ping it saw; if that ping was already answered (or timed
    out) the PONG is unsolicited — which the model represents as a PONG in the idle state (IPongOk/IPongBad
    are equivalent there).  Nothing to rewrite: kept for documentation."""
    return ops


def shutdown_histories(r, n):
    cases = []
    for _ in range(n):
        cfg = mk_cfg(r)
        cfg.update({"connect_timeout_ms": 3600000, "auth_timeout_ms": 3600000, "keepalive_ms": 3600000, "settle_ms": 5})
        ops = []
        states = []
        for k in range(1, r.randint(2, 5)):
            st = r.choice(["connecting", "connected", "auth", "auth"])
            states.append((k, st))
            ops.append({"t": "open", "k": k})
            if st != "connecting":
                ops.append({"t": "send", "k": k, "bytes": sl.frame("CONNECT", [("version", 1), ("heartbeat_interval", 0)]).hex()})
            if st == "auth":
                ops.append({"t": "send", "k": k, "bytes": sl.frame("IDENTIFY", [("username", "u%d" % k)]).hex()})
                if r.random() < 0.5:
                    ops.append({"t": "send", "k": k, "bytes": sl.frame("JOIN", [("id", 5), ("channel", "!c1@localhost")]).hex()})
        ops.append({"t": "shutdown", "wait_ms": 5000})
        cases.append({"cfg": cfg, "ops": ops, "states": states})
    return cases


def run(tier, replay=None):
    thorough = tier == "thorough"
    r = Rng(seed())
    broken = []
    ok_tr, tr_out = regen()
    if not ok_tr:
        broken.append("translator: " + tr_out)
    hyg = hygiene()
    if hyg:
        broken.append("forbidden vernacular: " + "; ".join(hyg))
    ok_model, mk1 = coq_make(["Conf/TimerConf.vo"])
    ok_props, mk2 = coq_make(["Props/C20.vo"]) if ok_model else (False, mk1)
    closed = {}
    if ok_props:
        closed, aout = assumptions(PROP, THEOREMS, "Props.C20")
        if closed is None:
            ok_props, mk2, closed = False, aout, {}
    if not ok_props:
        broken.append("Props/C20.vo does not compile: " + (mk2 or "")[-1500:])
    elif [t for t in THEOREMS if closed.get(t) != "closed"]:
        broken.append("not closed under the global context: %s" % [t for t in THEOREMS if closed.get(t) != "closed"])
    if thorough and ok_props:
        okc, summ = coqchk(PROP)
        if not okc:
            broken.append("independent checker: " + summ)
    okb, bout = harness_build("debug")
    if not okb:
        rp = write_replay(PROP, "harness_build", {"what": "harness does not build against /repo", "log": bout[-4000:]})
        write_evidence(PROP, tier, {"obligations": len(THEOREMS), "discharged": 0, "checker_cmd": "make", "trusted_base": TRUSTED_BASE}, [], 1)
        print(f"VIOLATION property={PROP} replay={rp} no-failing-input-found")
        return 1
    known = {k["id"]: k for k in load_known(PROP)}
    known_seen = {}
    violations, disagreements = [], []
    stats = {"scenarios": 0, "directed_near_deadline": 0, "ambiguous_skipped": 0, "events": {}, "shutdown_histories": 0}
    distinct = set()

    def search(n, tag, rr):
        cases = []
        if replay:
            with open(replay) as f:
                cases = json.load(f).get("cases", [])
        else:
            for i in range(n):
                directed = i % 3 == 0
                cfg, ops = scenario(rr, directed)
                cases.append({"cfg": cfg, "ops": ops, "directed": directed})
        obs, hout = sl.run_histories(cases, "debug", tag=tag, timeout=900)
        if obs is None:
            violations.append(("timer harness crashed or hung: " + hout[-300:], cases[0] if cases else {}))
            return
        terms = []
        for c, ob in zip(cases, obs):
            stats["scenarios"] += 1
            stats["directed_near_deadline"] += 1 if c.get("directed") else 0
            distinct.add(json.dumps(c["ops"]))
            term, mon = to_term(c["cfg"], c["ops"], ob)
            for o in ob["ops"]:
                for f in o["conns"].get("1", {"frames": []})["frames"]:
                    if "undecodable" not in f:
                        nme = sl.frame_name(f)
                        if nme == "ERROR":
                            nme += ":" + bytes.fromhex(sl.frame_get(f, "reason")).decode()
                        stats["events"][nme] = stats["events"].get(nme, 0) + 1
            for m in mon:
                violations.append((m, c))
            terms.append(term)
        if ok_model:
            vals, cout = coq_eval(PRELUDE, terms, kind="N", tag=tag + "c")
            if vals is None:
                broken.append("correspondence could not be evaluated: " + cout[-600:])
            else:
                for c, v in zip(cases, vals):
                    if v == 2:
                        stats["ambiguous_skipped"] += 1
                    elif v == 1:
                        disagreements.append({"case": c})

    search(400 if thorough else 60, "q", r)
    if not replay:
        sh = shutdown_histories(r, 20 if thorough else 5)
        sobs, hout = sl.run_histories(sh, "debug", tag="shut", timeout=600)
        if sobs is None:
            violations.append(("shutdown scenario hung: " + hout[-300:], sh[0]))
        else:
            for c, ob in zip(sh, sobs):
                stats["shutdown_histories"] += 1
                last = ob["ops"][-1]
                if not (last.get("note") or {}).get("shutdown_completed"):
                    violations.append(("ConnManager::shutdown did not complete", c))
                for k, st in c["states"]:
                    fr = last["conns"].get(str(k), {"frames": [], "closed": False})
                    reasons = [bytes.fromhex(sl.frame_get(f, "reason")) for f in fr["frames"] if "undecodable" not in f and sl.frame_name(f) == "ERROR"]
                    if reasons != [b"SERVER_SHUTTING_DOWN"] or not fr["closed"]:
                        violations.append((f"on shutdown connection {k} (state {st}) got {reasons}, closed={fr['closed']} instead of SERVER_SHUTTING_DOWN + close", c))
    if not replay:
        # the same keep-alive contract on the modulator links (S2M / M2S dispatchers share the engine, their handshakes
        # negotiate the interval on their own)
        import linklib as ll
        kc = ll.keepalive_cases(r, 60 if thorough else 12)
        kobs, kout = ll.run_link(kc, tag="c20ka")
        if kobs is None:
            violations.append(("link harness crashed or hung: " + kout[-300:], kc[0]))
        else:
            stats["link_keepalive_cases"] = len(kc)
            for c, ob in zip(kc, kobs):
                for what, t in ll.keepalive_monitor(c, ob):
                    violations.append((f"{c['kind'].upper()} link: " + what, c))
    if not replay:
        # shutdown through the real entry point (narwhal_server::run, TLS listener, worker threads, SIGTERM): every
        # connected client is told SERVER_SHUTTING_DOWN and the process exits
        import bootlib
        rb = Rng(seed() + 77)
        for _ in range(8 if thorough else 3):
            bv, bst = bootlib.probe(rb)
            stats["boot_shutdown_runs"] = stats.get("boot_shutdown_runs", 0) + 1
            stats["boot_storm_sockets"] = stats.get("boot_storm_sockets", 0) + bst.get("storm_sockets", 0)
            for what, lim in bv:
                if "SIGTERM" in what or "did not stop" in what or "did not come up" in what or "no longer serves new connections" in what:
                    violations.append(("server started through narwhal_server::run: " + what, {"boot_limits": lim}))
    if (broken or disagreements) and not violations and not replay:
        log("proof/correspondence broken; extended search")
        search(400, "x", Rng(seed() + 7919))

    coverage = {
        "obligations": len(THEOREMS), "discharged": len([t for t in THEOREMS if closed.get(t) == "closed"]),
        "checker_cmd": "python3 translator/gen.py && make -C coq -j16 Props/C20.vo Conf/TimerConf.vo && coqc work/assm_C20.v",
        "trusted_base": TRUSTED_BASE, "theorems": THEOREMS, "print_assumptions": closed,
        "evaluations": stats["scenarios"] + stats["shutdown_histories"], "distinct_nontrivial": len(distinct),
        "rule": "single-connection timelines on the real server under paused (virtual) time: open, CONNECT with heartbeat requests from {0,1,min-1,min,mid,max,max+1,u32::MAX}, IDENTIFY, requests, PONGs (correct, wrong id, unsolicited, none) at random and at near-deadline instants (+-7 ms), observation points before/after each deadline; the model is driven by the virtual timestamps the harness reports and coqc compares the timer-driven frames per observation window (emissions within 3 ms of a boundary make the case ambiguous: skipped and counted); plus shutdown histories with connections in every state",
        "traces_validated_against_impl": stats["scenarios"], "disagreements": len(disagreements), "distribution": stats,
        "samples": [], "known_findings_reproduced": sorted(known_seen), "exhaustive": False,
    }
    assum = ["virtual time only: wall-clock accuracy of tokio timers is out of scope",
             "C2sListener::shutdown ordering (worker pool dropped before the token is cancelled) and connections blocked inside a select! arm (stalled write, inline AUTH) are not exercised by this check; see DESIGN.md"]
    if violations:
        what, c = violations[0]
        rp = write_replay(PROP, "violation", {"what": what, "cases": [c], "all": [w for w, _ in violations[:20]], "broken": broken})
        write_evidence(PROP, tier, coverage, assum, len(violations))
        print(f"VIOLATION property={PROP} replay={rp}")
        log(what)
        return 1
    if broken or disagreements:
        rp = write_replay(PROP, "broken", {"what": "no failing input found; the following no longer checks", "broken": broken,
                                           "correspondence": "Conf/TimerConf.timer_conf", "cases": [d["case"] for d in disagreements[:5]]})
        write_evidence(PROP, tier, coverage, assum, 1)
        print(f"VIOLATION property={PROP} replay={rp} no-failing-input-found")
        return 1
    for kid in sorted(known):
        if kid in known_seen:
            print(f"KNOWN-FINDING: property={PROP} {kid} {known[kid]['what']}")
    write_evidence(PROP, tier, coverage, assum, 0)
    return 0
