"""Case generators and Coq term printers for the codec correspondence (C11; reused by C10/C06)."""
import importlib.util
import os

from common import VERIF, coq_bytes

_spec = importlib.util.spec_from_file_location("gen", os.path.join(VERIF, "translator/gen.py"))
gen = importlib.util.module_from_spec(_spec)
_spec.loader.exec_module(gen)

_schema = None


def schema():
    """[(variant, wire name, [field dicts])] from the current sources"""
    global _schema
    if _schema is None:
        import json
        cache = os.path.join(VERIF, "work", "schema_cache.json")
        try:
            ms = gen.parse_message_rs()
            _schema = [(v, ms["names"][v], ms["structs"][st]) for v, st in ms["variants"]]
            os.makedirs(os.path.dirname(cache), exist_ok=True)
            with open(cache, "w") as f:
                json.dump(_schema, f)
        except gen.Shape:
            # the translator does not recognise the current source: coq/Gen/*.v still hold the last translation, and so
            # must the Python side (the check reports the broken translation and goes on to search for a failing input)
            if not os.path.exists(cache):
                raise
            with open(cache) as f:
                _schema = [tuple(x) for x in json.load(f)]
    return _schema


SPECIAL = [b"\\", b'"', b"'", b":", b"*", b" ", b"\t", b"\x0b", b"\x0c", b"\r", b"=", b"\x00"]
PLAIN = [b"a", b"b", b"Z", b"0", b"9", b"_", b"@", b"!", b".", b"-", b"/", "é".encode(), "日".encode(), "😀".encode()]


def rand_str(r, allow_nul=True, maxlen=8, allow_nl=False):
    k = r.random()
    if k < 0.08:
        return b""
    n = r.randint(1, maxlen)
    out = b""
    heavy = r.random() < 0.6
    for _ in range(n):
        if heavy and r.random() < 0.5:
            c = r.choice(SPECIAL)
            if c == b"\x00" and (not allow_nul or r.random() < 0.7):
                c = b"\\"
            out += c
        else:
            out += r.choice(PLAIN)
    if allow_nl and r.random() < 0.05:
        out += b"\n"
    return out


BOUND = {"TU8": 255, "TU16": 65535, "TU32": 4294967295}


def rand_num(r, ty):
    mx = BOUND[ty]
    return r.choice([0, 1, 1, 2, 7, 10, 99, 100, 255, 256, 65535, 65536, mx - 1, mx, r.randint(0, mx)]) % (mx + 1)


ENUMS = {"type": [b"join", b"publish", b"read"], "action": [b"add", b"remove"],
         "reason": [b"BAD_REQUEST", b"TIMEOUT", b"FORBIDDEN", b"SEND_CHANNEL_FULL"],
         "kind": [b"MEMBER_JOINED", b"MEMBER_LEFT"]}


def rand_field(r, f, valid_bias):
    """JSON field value for the harness"""
    k, ty = f["kind"], f["ty"]
    if ty == "TAtom":
        def s():
            if valid_bias and f["pname"] in ENUMS and r.random() < 0.85:
                return r.choice(ENUMS[f["pname"]])
            v = rand_str(r)
            if valid_bias and f["valid"] == "VdNonEmpty" and v == b"" and r.random() < 0.8:
                v = b"x"
            return v
        if k == "KReg":
            return {"s": s().hex()}
        if k == "KOpt":
            return {"os": None if r.random() < 0.4 else s().hex()}
        n = r.choice([0, 0, 1, 1, 2, 3, 5])
        vals = [s().hex() for _ in range(n)]
        if n >= 2 and r.random() < 0.35:      # repeated entries, adjacent or not
            vals[r.randrange(1, n)] = vals[0]
            if n >= 3 and r.random() < 0.5:
                vals[-1] = vals[0]
        return {"v": vals}
    if ty == "TBool":
        if k == "KReg":
            return {"b": r.random() < 0.5}
        return {"ob": None if r.random() < 0.4 else (r.random() < 0.5)}
    def n():
        v = rand_num(r, ty)
        if valid_bias and f["valid"] == "VdNonZero" and v == 0 and r.random() < 0.85:
            v = 1
        if valid_bias and f["pname"] == "qos":
            v = r.choice([0, 1, 1, v])
        return v
    if k == "KReg":
        return {"n": n()}
    return {"on": None if r.random() < 0.4 else n()}


def rand_msg(r, kind=None):
    sch = schema()
    if kind is None:
        kind = r.randrange(len(sch))
    fs = sch[kind][2]
    vb = r.random() < 0.8
    return {"kind": kind, "fields": [rand_field(r, f, vb) for f in fs]}


def coq_fval(j):
    (k, x), = j.items()
    hx = lambda h: coq_bytes(bytes.fromhex(h))
    if k == "s":
        return "VStr %s" % hx(x)
    if k == "n":
        return "VNum %d" % x
    if k == "b":
        return "VBool %s" % ("true" if x else "false")
    if k == "os":
        return "VOStr None" if x is None else "VOStr (Some %s)" % hx(x)
    if k == "on":
        return "VONum None" if x is None else "VONum (Some %d)" % x
    if k == "ob":
        return "VOBool None" if x is None else "VOBool (Some %s)" % ("true" if x else "false")
    if k == "v":
        return "VVec [%s]" % ";".join(hx(e) for e in x)
    raise ValueError(k)


def coq_msg(j):
    return "(mk %d%%nat [%s])" % (j["kind"], ";".join(coq_fval(f) for f in j["fields"]))


def msg_all_utf8(j):
    for f in j["fields"]:
        (k, x), = f.items()
        vals = []
        if k == "s":
            vals = [x]
        elif k == "os" and x is not None:
            vals = [x]
        elif k == "v":
            vals = x
        for h in vals:
            try:
                bytes.fromhex(h).decode("utf-8")
            except UnicodeDecodeError:
                return False
    return True


# ---- decode inputs

def fmt_value_py(r, v):
    """a plausible wire rendering of a value (not necessarily the canonical one)"""
    if v == b"":
        return r.choice([b'\\"\\"', b"", b"\\'\\'"])
    if any(c in v for c in b" \t\x0b\x0c\r") or r.random() < 0.2:
        for e in r.sample([b'"', b"'", b":", b"*"], 4):
            if e not in v or r.random() < 0.1:
                return b"\\" + e + v + b"\\" + e
    return v


def rand_line(r):
    sch = schema()
    kind = r.randrange(len(sch))
    _, name, fs = sch[kind]
    parts = [name.encode()]
    order = list(fs)
    r.shuffle(order)
    for f in order:
        if f["kind"] == "KOpt" and r.random() < 0.4:
            continue
        pn = f["pname"].encode()
        jf = rand_field(r, f, True)
        (k, x), = jf.items()
        if k == "v":
            vals = [bytes.fromhex(h) for h in x]
            cnt = len(vals)
            if r.random() < 0.15:
                cnt = r.choice([0, cnt + 1, max(0, cnt - 1), 18446744073709551615, 18446744073709551616])
            if cnt == 0 and not vals and r.random() < 0.7:
                continue
            parts.append(pn + b":" + str(cnt).encode() + b"=" + b" ".join(fmt_value_py(r, v) for v in vals))
        elif k in ("s", "os"):
            if x is None:
                continue
            parts.append(pn + b"=" + fmt_value_py(r, bytes.fromhex(x)))
        elif k in ("n", "on"):
            if x is None:
                continue
            s = str(x).encode()
            if r.random() < 0.1:
                s = r.choice([b"+" + s, b"-" + s, b"0" + s, s + b"0", b"", b"+", b"0x1", s + b"a", b"99999999999"])
            parts.append(pn + b"=" + s)
        else:
            if x is None:
                continue
            s = b"true" if x else b"false"
            if r.random() < 0.1:
                s = r.choice([b"True", b"1", b"", b"tru", b"falsee"])
            parts.append(pn + b"=" + s)
    if r.random() < 0.1:
        parts.append(rand_str(r) + b"=" + rand_str(r))
    sep = b" " if r.random() < 0.8 else r.choice([b"  ", b"\t", b" \r", b"\x0b"])
    line = sep.join(parts)
    if r.random() < 0.15:
        line = r.choice([b" ", b"", b"\t"]) + line + r.choice([b" ", b"  ", b"", b"\x00", b"\\"])
    return line


def mutate(r, b):
    b = bytearray(b)
    for _ in range(r.randint(1, 3)):
        op = r.random()
        if not b:
            b += r.choice(SPECIAL + PLAIN)
        elif op < 0.3:
            i = r.randrange(len(b))
            b[i:i + 1] = r.choice(SPECIAL + PLAIN + [bytes([r.randrange(256)])])
        elif op < 0.55:
            i = r.randrange(len(b) + 1)
            b[i:i] = r.choice(SPECIAL + [b":0", b":0=", b"=", b"\\\"", b"\\"])
        elif op < 0.75:
            i = r.randrange(len(b))
            del b[i:i + r.randint(1, 3)]
        elif op < 0.9:
            b = b[:r.randrange(len(b) + 1)]
        else:
            i = r.randrange(len(b))
            j = r.randrange(len(b))
            b[i], b[j] = b[j], b[i]
    return bytes(b)


def coq_dec_obs(o):
    if o["r"] == "ok":
        return "(DOk %s)" % coq_msg(o)
    if o["r"] == "err":
        return "DErr"
    if o["r"] == "panic":
        return "DPanic"
    raise ValueError(o)


def coq_enc_obs(o):
    if o["r"] == "ok":
        return "(EOk %s)" % coq_bytes(bytes.fromhex(o["bytes"]))
    return {"toolarge": "ETooLarge", "other": "EOther", "panic": "EPanic"}[o["r"]]
