#!/bin/bash
# usage: tools/flakehunt.sh <seed>...   — runs every quick check once per seed; prints failures
cd /verif
for s in "$@"; do
  for p in C01 C02 C03 C04 C05 C06 C07 C08 C09 C10 C11 C12 C13 C14 C15 C16 C17 C18 C19 C20; do
    out=$(VERIF_SEED=$s VERIF_TIER=quick timeout 1200 bin/check $p 2>&1); rc=$?
    if [ $rc -ne 0 ] || echo "$out" | grep -q VIOLATION; then
      echo "FLAKE seed=$s prop=$p rc=$rc"; echo "$out" | tail -5
      cp work/replays/${p}_broken.json work/flake_${p}_seed$s.json 2>/dev/null
    fi
  done
  echo "seed $s done $(date +%T)"
done
