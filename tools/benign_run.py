#!/usr/bin/env python3
"""benign_run.py [NN...] : applies each behaviour-preserving patch under /verif/benign/benign_NN.diff to /repo, runs the
checks that read the touched files (every check regenerates all translator output first), reverts, and records the
verdicts in benign/RESULTS.md.  A VIOLATION here is a false alarm of the machinery (or, for the lexical lints, the
brittleness the brief allows: no-failing-input-found)."""
import json, os, subprocess, sys, time
V = os.path.dirname(os.path.dirname(os.path.abspath(__file__)))
CHECKS = {"01": ["C06", "C12"], "02": ["C13", "C05"], "03": ["C06", "C09"], "04": ["C10"], "05": ["C19"], "06": ["C11"], "07": ["C11", "C10"],
          "08": ["C14"], "09": ["C16"], "10": ["C02", "C17"]}
ids = sys.argv[1:] or sorted(CHECKS)
rows = []
for i in ids:
    assert subprocess.run("git -C /repo status --porcelain --untracked-files=no", shell=True, capture_output=True, text=True).stdout.strip() == "", "/repo not clean"
    subprocess.run(["git", "-C", "/repo", "apply", os.path.join(V, "benign", "benign_%s.diff" % i)], check=True)
    try:
        for prop in CHECKS[i]:
            t = time.time()
            p = subprocess.run([os.path.join(V, "bin/check"), prop], cwd=V, capture_output=True, text=True, timeout=3000)
            line = next((l for l in p.stdout.splitlines() if l.startswith("VIOLATION")), "")
            rows.append((i, prop, p.returncode, line, round(time.time() - t, 1)))
            print(rows[-1], flush=True)
            if line:
                rp = line.split("replay=")[1].split()[0]
                subprocess.run(["cp", rp, os.path.join(V, "work", "benign_%s_%s.json" % (i, prop))])
    finally:
        subprocess.run("git -C /repo checkout -- .", shell=True, check=True)
with open(os.path.join(V, "benign", "RESULTS.md"), "a") as f:
    for r in rows:
        f.write("| %s | %s | exit %d | %s | %ss |\n" % (r[0], r[1], r[2], r[3] or "quiet", r[4]))
