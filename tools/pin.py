#!/usr/bin/env python3
"""pin.py <Props file> <imports...> -- NAME=ORIG ...   : appends pinned theorems `Theorem NAME : <type of ORIG>. Proof. exact ORIG. Qed.`
(the type is printed by coqc and pasted verbatim, so the statement is visible and fixed in the Props file)"""
import re, subprocess, sys, os
props = sys.argv[1]
i = sys.argv.index("--")
imports = [a for a in sys.argv[2:i] if a != "--N"]
NSCOPE = "--N" in sys.argv[2:i]      # statements over N / lists: print with numerals and list notations
pairs = [a.split("=") for a in sys.argv[i+1:]]
src = "".join("From NW Require Import %s.\n" % m for m in imports) + ("From Coq Require Import List NArith.\nImport ListNotations.\nOpen Scope N_scope.\n" if NSCOPE else "") + "Set Printing Width 100.\nSet Printing Depth 1000.\n"
for new, orig in pairs:
    src += 'Goal True. idtac "@@@%s". exact I. Qed.\nCheck %s.\n' % (new, orig)
open("/verif/work/pin_tmp.v", "w").write(src)
out = subprocess.run("cd /verif/work && coqc -noglob -Q ../coq NW pin_tmp.v", shell=True, capture_output=True, text=True)
if out.returncode != 0:
    print(out.stdout, out.stderr); sys.exit(1)
parts = re.split(r"@@@(\S+)\n", out.stdout)
res = ""
for k in range(1, len(parts), 2):
    new, body = parts[k], parts[k+1]
    orig = dict(pairs)[new]
    m = re.match(r"\s*%s\s*\n?\s*:\s(.*)" % re.escape(orig), body, flags=re.S)
    ty = m.group(1).rstrip()
    ty = re.sub(r"\n     ", "\n", ty)
    res += "\nTheorem %s :\n  %s.\nProof. exact %s. Qed.\n" % (new, ty.replace("\n", "\n  "), orig)
open(props, "a").write(res)
print("pinned", [p[0] for p in pairs])
