#!/usr/bin/env python3
"""seed_run.py [ids...] : applies each seeded change under /verif/seeded/<id>/patch.diff to /repo, runs the checks
named in its meta.json (default: the property it breaks), reverts, and records the verdicts in
seeded/<id>/meta.json and seeded/README.md."""
import json, os, subprocess, sys, time
V = os.path.dirname(os.path.dirname(os.path.abspath(__file__)))
PRIMARY = "--primary" in sys.argv      # run only the check of the property the change was written against
ids = [a for a in sys.argv[1:] if not a.startswith("--")] or sorted(d for d in os.listdir(os.path.join(V, "seeded")) if os.path.isdir(os.path.join(V, "seeded", d)))
rows = []
for i in ids:
    d = os.path.join(V, "seeded", i)
    meta = json.load(open(os.path.join(d, "meta.json")))
    assert subprocess.run("git -C /repo status --porcelain --untracked-files=no", shell=True, capture_output=True, text=True).stdout.strip() == "", "/repo not clean"
    subprocess.run(["git", "-C", "/repo", "apply", os.path.join(d, "patch.diff")], check=True)
    res = {}
    try:
        for prop in ([meta["property"]] if PRIMARY else meta.get("checks", [meta["property"]])):
            t = time.time()
            p = subprocess.run([os.path.join(V, "bin/check"), prop], cwd=V, capture_output=True, text=True, timeout=3000)
            line = next((l for l in p.stdout.splitlines() if l.startswith("VIOLATION")), "")
            res[prop] = {"exit": p.returncode, "line": line, "wall_s": round(time.time() - t, 1)}
    finally:
        subprocess.run("git -C /repo checkout -- .", shell=True, check=True)
    if PRIMARY:
        res = dict(meta.get("check_results", {}), **res)
    meta["check_results"] = res
    json.dump(meta, open(os.path.join(d, "meta.json"), "w"), indent=1)
    rows.append((i, meta, res))
    print(i, {k: (v["exit"], "no-input" if "no-failing-input-found" in v["line"] else ("replay" if v["line"] else "")) for k, v in res.items()})
# README table (all seeded dirs)
allrows = []
for i in sorted(d for d in os.listdir(os.path.join(V, "seeded")) if os.path.isdir(os.path.join(V, "seeded", d))):
    m = json.load(open(os.path.join(V, "seeded", i, "meta.json")))
    allrows.append((i, m))
with open(os.path.join(V, "seeded", "README.md"), "w") as f:
    f.write("# Seeded changes\n\nEach directory holds `patch.diff` (applies to /repo HEAD), the author's demonstration and `meta.json`.\n"
            "Produced by sub-agents that saw only the property text and a scratch worktree; confirmed here (compiles, 114 tests pass, demo fails with / passes without).\n"
            "`tools/seed_run.py` applies each change, runs the checks, reverts.\n\n| id | property | change | needs | caught by |\n|---|---|---|---|---|\n")
    for i, m in allrows:
        caught = "; ".join("%s: %s" % (k, ("VIOLATION with failing input" if v["line"] and "no-failing-input-found" not in v["line"] else ("VIOLATION no-failing-input-found" if v["line"] else "not caught"))) for k, v in m.get("check_results", {}).items())
        f.write("| %s | %s | %s | %s | %s |\n" % (i, m["property"], m["what"].replace("|", "/"), m["needs"].replace("|", "/"), caught))
