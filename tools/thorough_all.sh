#!/bin/bash
# runs every thorough check once, sequentially; prints one line per property
cd /verif
for p in "$@"; do
  s=$(date +%s); out=$(timeout 7200 bin/check $p --tier thorough 2>&1); rc=$?
  echo "$p rc=$rc $(( $(date +%s) - s ))s known=$(echo "$out" | grep -c KNOWN-FINDING) $(echo "$out" | grep VIOLATION | head -2)"
  if [ $rc -ne 0 ]; then echo "$out" | tail -5; cp work/replays/${p}_*.json work/thorough_fail_${p}.json 2>/dev/null; fi
done
echo "thorough done $(date +%T)"
