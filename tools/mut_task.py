#!/usr/bin/env python3
"""mut_task.py <ID>... : creates a scratch worktree /tmp/mut_<ID> of /repo HEAD and /tmp/mut_<ID>_out/TASK.md holding
only the property's text (nothing from /verif) for a mutation-seeding sub-agent."""
import json, os, subprocess, sys
V = "/verif"
tmpl = open(os.path.join(V, "tools/mutprompt_C01.txt")).read()
props = {json.loads(l)["id"]: json.loads(l) for l in open(os.path.join(V, "properties.jsonl"))}
c01 = props["C01"]
head = subprocess.run("git -C /repo rev-parse --short HEAD", shell=True, capture_output=True, text=True).stdout.strip()
for arg in sys.argv[1:]:
    pid, _, hint = arg.partition(":")
    p = props[pid]
    t = tmpl.replace("C01 — " + c01["title"], pid + " — " + p["title"])
    t = t.replace(c01["statement"], p["statement"]).replace(c01["quantifier"]["text"], p["quantifier"]["text"])
    t = t.replace(c01["why_tests_cant"], p["why_tests_cant"]).replace(", ".join(c01["anchors"]["files"]), ", ".join(p["anchors"]["files"]))
    t = t.replace("C01", pid).replace("11b8147", head)
    t = t.replace("(git stash your change)", "(NEVER use `git stash`: it is shared between worktrees; toggle your change with `git diff > /tmp/mut_%s_out/patch.diff`, `git apply -R /tmp/mut_%s_out/patch.diff`, `git apply /tmp/mut_%s_out/patch.diff`)" % (pid, pid, pid))
    assert (pid == "C01" or c01["title"] not in t) and "stash your" not in t
    # round 2+: name the changes already seeded for this property so that the new one is of a different kind
    import glob
    prev = []
    for mf in sorted(glob.glob(os.path.join(V, "seeded", pid + "-*", "meta.json"))):
        prev.append(json.load(open(mf))["what"])
    if prev:
        t = t.replace("YOUR TASK:", "AVOID REPEATS: earlier rounds already produced the following change(s) for this property; yours must be of a different kind, in a different function (ideally a different file) and need a different trigger:\n" + "\n".join("  - " + x for x in prev) + "\n\nYOUR TASK:", 1)
    if hint.startswith("@"):
        t = t.replace("YOUR TASK:", "TARGET HINT: " + hint[1:] + "\n\nYOUR TASK:", 1)
    elif hint:
        t = t.replace("YOUR TASK:", "TARGET HINT: this round explores parts of the code earlier rounds did not touch. Make your change in `%s` (or, if nothing there can break this property, in the code closest to it that is NOT one of the functions named above); the property text still decides what counts as broken.\n\nYOUR TASK:" % hint, 1)
    w = "/tmp/mut_" + pid
    os.makedirs(w + "_out", exist_ok=True)
    if not os.path.isdir(w):
        subprocess.run(["git", "-C", "/repo", "worktree", "add", "--detach", w, "HEAD"], check=True, capture_output=True)
    open(w + "_out/TASK.md", "w").write(t)
    print(pid, "ready")
