#!/bin/bash
# confirm_mut.sh <ID> <demo-crate> : confirms a seeded change in its scratch worktree /tmp/mut_<ID>
ID=$1; W=/tmp/mut_$ID; O=/tmp/mut_${ID}_out; L=$O/confirm.log
export CARGO_NET_OFFLINE=true CARGO_TARGET_DIR=$W/target
cd $W || exit 2
{
echo "== diff equals patch.diff?"; git diff > $O/_cur.diff; if diff -q $O/_cur.diff $O/patch.diff >/dev/null; then echo SAME; else echo DIFFERENT; git checkout -- . ; git apply $O/patch.diff || echo APPLY-FAILED; fi
echo "== patch applies to /repo HEAD?"; git -C /repo apply --check $O/patch.diff && echo APPLIES
demo=$(git status --porcelain | grep '^??' | grep -v target | awk '{print $2}' | head -1); echo "demo file: $demo"
mv $demo /tmp/_demo_$ID.rs
echo "== suite with mutation (demo moved away)"; cargo test --workspace --offline 2>&1 | grep -E "^test result|FAILED|failed" | grep -v " 0 passed; 0 failed"
mv /tmp/_demo_$ID.rs $demo
t=$(basename $demo .rs); crate=$2
echo "== demo with mutation"; cargo test --offline -p $crate --test $t 2>&1 | grep -E "^test result|^test .*(ok|FAILED)"
git apply -R $O/patch.diff
echo "== demo without mutation"; cargo test --offline -p $crate --test $t 2>&1 | grep -E "^test result|^test .*(ok|FAILED)"
git apply $O/patch.diff
} > $L 2>&1
echo done $ID
