#!/bin/bash
# thorough tier of the properties that include the interleaved stage, one after the other; prints rc per property
cd /verif
for p in C01 C02 C03 C04 C06 C07 C12 C14 C18 C13; do
  /usr/bin/time -f "$p thorough %es" bin/check $p --tier thorough 2>&1 | grep -v "^KNOWN-FINDING" | cut -c1-300
  echo "$p rc=${PIPESTATUS[0]}"
done
echo "thorough done"
